//! E1 "mapspace": stateless DFS over histories of mapping lines. A state is the history reached
//! so far (no state merging: two histories are never assumed to have equal futures). In every
//! state fresh real objects are built from the printed history and the complete query universe of
//! the history is issued against them; an oracle judges every answer.

use crate::ast::*;
use crate::fw::*;
use crate::model::{MFrame, Model};
use crate::q::{universes_for, Universe};
use crate::subj::{cur, Fr, Subj};
use serde_json::{json, Value};

// ---------------------------------------------------------------------------------------------
// spaces

pub trait Space: Sync {
    fn name(&self) -> String;
    fn describe(&self) -> Value;
    fn n_items(&self) -> usize;
    /// enumerate all states of work item `item`; `f(lines, term, appended)`; `appended` = number of
    /// line-append transitions that led from the previously visited state's common prefix to this one
    fn run_item(&self, item: usize, budget: &Budget, f: &mut dyn FnMut(&[Line], Term));
    fn wide(&self) -> bool {
        false
    }
}

/// All sequences of length 0..=depth over `alphabet`, appended to `prefix`.
pub struct SeqSpace {
    pub name: String,
    pub prefix: Vec<Line>,
    pub alphabet: Vec<Line>,
    pub depth: usize,
    pub term: Term,
    pub wide: bool,
    /// number of leading symbols that form a work item
    pub split: usize,
}

impl SeqSpace {
    pub fn new(name: &str, prefix: Vec<Line>, alphabet: Vec<Line>, depth: usize) -> SeqSpace {
        let split = if depth == 0 {
            0
        } else if alphabet.len() >= 48 || depth == 1 {
            1
        } else {
            2.min(depth)
        };
        SeqSpace { name: name.to_string(), prefix, alphabet, depth, term: Term::Lf, wide: false, split }
    }
    pub fn size(&self) -> u64 {
        let a = self.alphabet.len() as u64;
        (0..=self.depth as u32).map(|d| a.pow(d)).sum()
    }
    fn dfs(&self, seq: &mut Vec<Line>, left: usize, budget: &Budget, f: &mut dyn FnMut(&[Line], Term)) {
        f(seq, self.term);
        if left == 0 || budget.exceeded() {
            return;
        }
        for a in &self.alphabet {
            seq.push(*a);
            self.dfs(seq, left - 1, budget, f);
            seq.pop();
        }
    }
}

impl Space for SeqSpace {
    fn name(&self) -> String {
        self.name.clone()
    }
    fn describe(&self) -> Value {
        json!({"scope": self.name, "kind": "all sequences of length 0..=depth over the alphabet, appended to the prefix",
               "alphabet_size": self.alphabet.len(), "depth": self.depth, "files": self.size(), "terminator": self.term.name(),
               "prefix": self.prefix.iter().map(|l| esc(&l.printed())).collect::<Vec<_>>(),
               "alphabet": self.alphabet.iter().map(|l| esc(&l.printed())).collect::<Vec<_>>()})
    }
    fn n_items(&self) -> usize {
        // item 0: all sequences shorter than `split`; items 1..: one per `split`-symbol prefix
        1 + if self.split == 0 { 0 } else { self.alphabet.len().pow(self.split as u32) }
    }
    fn run_item(&self, item: usize, budget: &Budget, f: &mut dyn FnMut(&[Line], Term)) {
        let mut seq = self.prefix.clone();
        if item == 0 {
            if self.split == 0 {
                f(&seq, self.term);
            } else {
                // sequences of length < split
                let sub = SeqSpace { depth: self.split - 1, split: 0, name: String::new(), prefix: vec![], alphabet: self.alphabet.clone(), term: self.term, wide: self.wide };
                sub.dfs(&mut seq, self.split - 1, budget, f);
            }
            return;
        }
        let mut k = item - 1;
        let a = self.alphabet.len();
        let mut idx = vec![0usize; self.split];
        for i in (0..self.split).rev() {
            idx[i] = k % a;
            k /= a;
        }
        for i in idx {
            seq.push(self.alphabet[i]);
        }
        self.dfs(&mut seq, self.depth - self.split, budget, f);
    }
    fn wide(&self) -> bool {
        self.wide
    }
}

/// An explicit list of files.
pub struct ListSpace {
    pub name: String,
    pub note: String,
    pub files: Vec<(Vec<Line>, Term)>,
    pub wide: bool,
    /// files per work item (computed once)
    pub chunk: std::sync::OnceLock<usize>,
}
const LIST_CHUNK: usize = 64;
impl ListSpace {
    /// heavy families (files of more than 40 lines) get one file per work item
    fn chunk(&self) -> usize {
        *self.chunk.get_or_init(|| if self.files.iter().any(|(l, _)| l.len() > 40) { 1 } else { LIST_CHUNK })
    }
}
impl Space for ListSpace {
    fn name(&self) -> String {
        self.name.clone()
    }
    fn describe(&self) -> Value {
        json!({"scope": self.name, "kind": "explicit family", "files": self.files.len(), "definition": self.note})
    }
    fn n_items(&self) -> usize {
        (self.files.len() + self.chunk() - 1) / self.chunk()
    }
    fn run_item(&self, item: usize, budget: &Budget, f: &mut dyn FnMut(&[Line], Term)) {
        let c = self.chunk();
        for (l, t) in self.files.iter().skip(item * c).take(c) {
            if budget.exceeded() {
                return;
            }
            f(l, *t);
        }
    }
    fn wide(&self) -> bool {
        self.wide
    }
}

// ---------------------------------------------------------------------------------------------
// scope definitions (DESIGN.md §3)

const CLS_A: Line = Line::Class { orig: "p.A", obf: "a" };

pub fn ms_a_alphabet(full: bool) -> Vec<Line> {
    let ranges: &[Option<(u64, u64)>] = if full {
        &[None, Some((1, 1)), Some((2, 4)), Some((3, 6)), Some((4, 2)), Some((0, 0)), Some((0, 3)), Some((3, 0)), Some((5, 5))]
    } else {
        &[None, Some((1, 1)), Some((2, 4)), Some((3, 6)), Some((4, 2)), Some((0, 3))]
    };
    let origs: &[Orig] = if full {
        &[Orig::None, Orig::S(7), Orig::SE(7, 7), Orig::SE(7, 9), Orig::SE(9, 7), Orig::S(0), Orig::SE(0, 0), Orig::SE(7, 0)]
    } else {
        &[Orig::None, Orig::S(7), Orig::SE(7, 9), Orig::SE(9, 7), Orig::SE(7, 7), Orig::SE(7, 0)]
    };
    let classes: &[Option<S>] = if full { &[None, Some("x.Y"), Some("x.Y$Z")] } else { &[None, Some("x.Y")] };
    let mut v = Vec::new();
    for r in ranges {
        for o in origs {
            for c in classes {
                for n in ["p", "q"] {
                    v.push(method(*r, *c, n, "", *o, "m"));
                }
            }
        }
    }
    v
}

pub fn ms_a(depth: usize, full: bool) -> SeqSpace {
    SeqSpace::new(if full { "MS-A range arithmetic" } else { "MS-A range arithmetic (sub-alphabet)" }, vec![CLS_A], ms_a_alphabet(full), depth)
}

/// MS-A depth 3 over a 48-entry alphabet (thorough tier)
pub fn ms_a_depth3() -> SeqSpace {
    let mut v = Vec::new();
    for r in [None, Some((1u64, 1u64)), Some((2, 4)), Some((4, 2))] {
        for o in [Orig::None, Orig::S(7), Orig::SE(7, 9)] {
            for c in [None, Some("x.Y")] {
                for n in ["p", "q"] {
                    v.push(method(r, c, n, "", o, "m"));
                }
            }
        }
    }
    SeqSpace::new("MS-A range arithmetic (48-entry alphabet, depth 3)", vec![CLS_A], v, 3)
}

pub fn ms_a_wide(depth: usize) -> SeqSpace {
    let mut v = Vec::new();
    for r in [(10, 20), (20, 10), (15, 40), (64, 64)] {
        for o in [Orig::None, Orig::S(30), Orig::SE(30, 30), Orig::SE(30, 40), Orig::SE(100, 130)] {
            for n in ["p", "q"] {
                v.push(method(Some(r), None, n, "", o, "m"));
            }
        }
    }
    let mut s = SeqSpace::new("MS-A wide (lines 0..=66)", vec![CLS_A], v, depth);
    s.wide = true;
    s
}

pub const LARGE: [u64; 4] = [1, 1 << 31, (1 << 32) - 3, (1 << 32) - 2];

pub fn ms_a_large(depth: usize) -> SeqSpace {
    let mut v = Vec::new();
    for s in LARGE {
        for e in LARGE {
            let mut origs = vec![Orig::None];
            for a in LARGE {
                origs.push(Orig::S(a));
                for b in LARGE {
                    origs.push(Orig::SE(a, b));
                }
            }
            for o in origs {
                v.push(method(Some((s, e)), None, "p", "", o, "m"));
            }
        }
    }
    SeqSpace::new("MS-A large numbers", vec![CLS_A], v, depth)
}

pub fn ms_b_alphabet(full: bool) -> Vec<Line> {
    let mut v = vec![class("p.A", "a"), class("p.B", "b"), class("p.C", "a")];
    if full {
        v.push(class("p.A", "c"));
        v.push(Line::SourceFile("S.kt"));
        v.push(Line::SourceFile("R8$$SyntheticClass"));
    }
    let objs: &[S] = &["m", "n"];
    let argss: &[S] = if full { &["", "int"] } else { &[""] };
    for obf in objs {
        for args in argss {
            for name in ["p", "q"] {
                for r in [None, Some((1u64, 2u64))] {
                    let o = if r.is_some() { Orig::SE(3, 4) } else { Orig::None };
                    v.push(method(r, None, name, args, o, obf));
                }
            }
        }
    }
    // foreign-class variants
    v.push(method(Some((1, 2)), Some("x.Y"), "p", "", Orig::SE(3, 4), "m"));
    v.push(method(None, Some("x.Y"), "q", "", Orig::None, "m"));
    v
}

pub fn ms_b(depth: usize, full: bool) -> SeqSpace {
    SeqSpace::new(if full { "MS-B block bookkeeping" } else { "MS-B block bookkeeping (13-line sub-alphabet)" }, vec![], ms_b_alphabet(full), depth)
}

/// MS-C file rule: block x header form x header position x entries (<= 3)
pub fn ms_c() -> ListSpace {
    let blocks = [class("p.A", "a"), class("x.Outer$Inner", "b"), class("x.y.Z$1$2", "c"), class("NoPkg", "d"), class("x.$Proxy0", "e"), class("$Gson$Types", "f")];
    let headers: [Option<Line>; 5] = [
        None,
        Some(Line::SourceFile("S.kt")),
        Some(Line::SourceFile("R8$$SyntheticClass")),
        Some(Line::Header { key: "sourceFile", value: Some("G.java") }),
        Some(Line::Header { key: "sourceFile", value: None }),
    ];
    // near misses of the one documented magic file name: ordinary file names, to be reported verbatim
    let magic_near: [S; 8] = ["D8$$SyntheticClass", "R8$SyntheticClass", "R8$$SyntheticClass2", "xR8$$SyntheticClass", "r8$$syntheticclass", "R8$$Synthetic", "$$SyntheticClass", "R8$$SyntheticClass.java"];
    let mut entry_alpha = Vec::new();
    // "p.A" as a qualifier: an entry qualified with the name of its own class (in the p.A block) is still an entry
    // with an explicit class
    for c in [None, Some("q.F"), Some("q.F$G"), Some("p.A")] {
        entry_alpha.push(method(None, c, "p", "", Orig::None, "m"));
        entry_alpha.push(method(Some((1, 2)), c, "q", "", Orig::SE(3, 4), "m"));
    }
    // all sequences of <= 3 entries over the first six; the self-qualified entries (last two) in sequences of <= 2
    let mut seqs: Vec<Vec<Line>> = Vec::new();
    for (ia, a) in entry_alpha.iter().enumerate() {
        seqs.push(vec![*a]);
        for (ib, b) in entry_alpha.iter().enumerate() {
            seqs.push(vec![*a, *b]);
            if ia >= 6 || ib >= 6 {
                continue;
            }
            for c in entry_alpha.iter().take(6) {
                seqs.push(vec![*a, *b, *c]);
            }
        }
    }
    let mut files = Vec::new();
    for (bi, b) in blocks.into_iter().enumerate() {
        for h in headers {
            for h2 in headers {
                // h at position p1, optional second header h2 directly before the last entry
                for pos in 0..4usize {
                    if h.is_none() && (pos > 0 || h2.is_some()) {
                        continue;
                    }
                    for es in &seqs {
                        if h2.is_some() && es.len() < 2 {
                            continue;
                        }
                        // the two '$'-leading class shapes: sequences of <= 2 entries
                        if bi >= 4 && es.len() > 2 {
                            continue;
                        }
                        let mut f = Vec::new();
                        if pos == 0 {
                            if let Some(h) = h {
                                f.push(h);
                            }
                        }
                        f.push(b);
                        if pos == 1 {
                            if let Some(h) = h {
                                f.push(h);
                            }
                        }
                        for (i, e) in es.iter().enumerate() {
                            if pos == 2 && i == 1 {
                                if let Some(h) = h {
                                    f.push(h);
                                }
                            }
                            if i + 1 == es.len() && i > 0 {
                                if let Some(h2) = h2 {
                                    f.push(h2);
                                }
                            }
                            f.push(*e);
                        }
                        if pos == 3 {
                            if let Some(h) = h {
                                f.push(h);
                            }
                        }
                        if pos == 2 && es.len() < 2 {
                            continue;
                        }
                        files.push((f, Term::Lf));
                    }
                }
            }
        }
    }
    for b in blocks {
        for mn in magic_near {
            for c in [None, Some("q.F$G")] {
                files.push((vec![b, Line::SourceFile(mn), method(Some((1, 2)), c, "q", "", Orig::SE(3, 4), "m"), method(None, None, "p", "", Orig::None, "m")], Term::Lf));
            }
        }
    }
    ListSpace {
        name: "MS-C file rule".into(),
        note: "4 class blocks x 5 sourceFile header forms (none, JSON S.kt, JSON R8$$SyntheticClass, '# sourceFile: G.java', valueless '# sourceFile') x 4 positions (before class line, after it, between entries, after last entry) x optional second header before the last entry x all sequences of 1..=3 entries over {own, q.F, q.F$G} x {no range, 1:2->3:4}; plus 8 near misses of the magic name R8$$SyntheticClass as ordinary file names".into(),
        files,
        wide: false,
        chunk: Default::default(),
    }
}

pub const NAME_POOL: [S; 14] = ["a", "a.", "a.b", "a$b", "a-", "aa", "ab", "b", "A", "\u{e9}", "a\u{e9}", "a.a.a", "a$", "$a"];

fn orig_name(i: usize) -> S {
    const O: [S; 16] = ["o.O0", "o.O1", "o.O2", "o.O3", "o.O4", "o.O5", "o.O6", "o.O7", "o.O8", "o.O9", "o.O10", "o.O11", "o.O12", "o.O13", "o.O14", "o.O15"];
    O[i % 16]
}

/// MS-D names and order
pub fn ms_d(thorough: bool) -> ListSpace {
    let mut files: Vec<(Vec<Line>, Term)> = Vec::new();
    let n = NAME_POOL.len();
    // (1) class tables: every ordered selection (with repetition => duplicates) of <= 3 pool names,
    // each class carrying one entry whose original name tells the blocks apart
    let mk = |sel: &[usize]| -> Vec<Line> {
        let mut f = Vec::new();
        for (k, &i) in sel.iter().enumerate() {
            f.push(class(orig_name(k), NAME_POOL[i]));
            f.push(method(None, None, ["p", "q", "r"][k % 3], "", Orig::None, "m"));
        }
        f
    };
    for i in 0..n {
        files.push((mk(&[i]), Term::Lf));
        for j in 0..n {
            files.push((mk(&[i, j]), Term::Lf));
            for k in 0..n {
                files.push((mk(&[i, j, k]), Term::Lf));
            }
        }
    }
    // (2) every subset of size 4..5 in ascending and descending pool order (thorough: all; quick: size 4 and a stride of size 5)
    let mut subsets: Vec<Vec<usize>> = Vec::new();
    for mask in 0u32..(1 << n) {
        let c = mask.count_ones();
        if c == 4 || (c == 5 && (thorough || mask % 7 == 0)) {
            subsets.push((0..n).filter(|i| mask & (1 << i) != 0).collect());
        }
    }
    for s in &subsets {
        files.push((mk(s), Term::Lf));
        let mut r = s.clone();
        r.reverse();
        files.push((mk(&r), Term::Lf));
    }
    // (3) the same for method names inside one class: ordered selections of <= 3 pool names as obfuscated method names
    let mkm = |sel: &[usize]| -> Vec<Line> {
        let mut f = vec![class("p.A", "a")];
        for (k, &i) in sel.iter().enumerate() {
            f.push(method(None, None, ["p", "q", "p"][k % 3], "", Orig::None, NAME_POOL[i]));
        }
        f
    };
    for i in 0..n {
        files.push((mkm(&[i]), Term::Lf));
        for j in 0..n {
            files.push((mkm(&[i, j]), Term::Lf));
            for k in 0..n {
                files.push((mkm(&[i, j, k]), Term::Lf));
            }
        }
    }
    // (4) large-N family: N classes with generated names, class i carrying i%3 entries of which j <= i%3 reach the by-params section
    for nn in [0usize, 1, 2, 3, 7, 8, 9, 63, 64, 65, 300] {
        for variant in 0..3usize {
            let mut f = Vec::new();
            for i in 0..nn {
                // names chosen so that sort order != file order and prefixes abound
                let idx = (i * 7 + variant) % nn.max(1);
                let obf = leak(&format!("c{}", radix26(idx)));
                let orig = leak(&format!("o.C{}", idx));
                f.push(class(orig, obf));
                let ecount = (i + variant) % 3;
                for e in 0..ecount {
                    // e == 0 and ecount == 2: inlined callee (same range as the next one) -> not in by-params
                    let r = Some((1u64, 2u64 + (e as u64 / 2)));
                    f.push(method(r, None, ["p", "q"][e % 2], ["", "int"][(i + e) % 2], Orig::SE(3, 4), ["m", "n"][(i / 2) % 2]));
                }
            }
            files.push((f, Term::Lf));
        }
    }
    ListSpace {
        name: "MS-D names and order".into(),
        note: "pool of 14 adversarially similar names; all ordered selections (with repetition) of <=3 as class tables and as method tables; subsets of size 4-5 ascending and descending; large-N family N in {0,1,2,3,7,8,9,63,64,65,300} x 3 variants".into(),
        files,
        wide: false,
        chunk: Default::default(),
    }
}

fn radix26(mut i: usize) -> String {
    let mut s = String::new();
    loop {
        s.push((b'a' + (i % 26) as u8) as char);
        i /= 26;
        if i == 0 {
            break;
        }
    }
    s
}

pub const NOISE: [&[u8]; 7] = [b"", b"garbage", b"    garbage", b"a -> b", b"  int x -> y", b"\xff\xfe", b"\"}"];
/// the unterminated sourceFile header: a malformed line like any other (C01: "unparseable lines")
pub const NOISE_UNTERMINATED: &[u8] = b"# {\"id\":\"sourceFile\",\"fileName\":\"x";
/// R8's member-level metadata comments: indented, therefore not header records of the documented grammar (today: error
/// items, which the builders' one-record look-ahead skips). Indices 8 and 9 of the noise list of MS-E.
pub const NOISE_R8_MEMBER_COMMENTS: [&[u8]; 2] = [b"      # {\"id\":\"com.android.tools.r8.synthesized\"}", b"    # {\"id\":\"com.android.tools.r8.outline\"}"];

/// MS-E form invariance: base files x terminators x noise insertion x block permutation
/// level 0: small (MS-B <= 2 bases, every 20th MS-C file), 1: MS-B <= 3, every 5th MS-C file, 2: everything + noise pairs
pub fn ms_e(level: usize) -> ListSpace {
    let thorough = level >= 2;
    let mut bases: Vec<Vec<Line>> = Vec::new();
    {
        let b = ms_b(if level == 0 { 2 } else { 3 }, true);
        let budget = Budget::new(3600);
        for item in 0..b.n_items() {
            b.run_item(item, &budget, &mut |l, _| {
                if !l.is_empty() {
                    bases.push(l.to_vec())
                }
            });
        }
    }
    let c = ms_c();
    for (i, (l, _)) in c.files.iter().enumerate() {
        if (thorough && i % 2 == 0) || (level == 1 && i % 10 == 0) || i % 20 == 0 {
            bases.push(l.clone());
        }
    }
    let mut noise: Vec<&'static [u8]> = NOISE.to_vec();
    noise.push(NOISE_UNTERMINATED);
    noise.extend_from_slice(&NOISE_R8_MEMBER_COMMENTS);
    let mut files = Vec::new();
    for b in &bases {
        for t in TERMS {
            if t != Term::Lf {
                files.push((b.clone(), t));
            }
        }
        // one noise line at every position (bases of 3 lines: the three most different noise kinds unless thorough)
        for pos in 0..=b.len() {
            for (ni, nz) in noise.iter().enumerate() {
                if !thorough && b.len() >= 3 && ![0usize, 1, 7, 8].contains(&ni) {
                    continue;
                }
                let mut f = b.clone();
                f.insert(pos, Line::Noise(nz));
                files.push((f.clone(), Term::Lf));
                if thorough && b.len() <= 3 {
                    files.push((f, Term::CrLf));
                }
            }
        }
        // one noise line at every position under every other terminator policy (short bases; all bases when thorough)
        if (thorough && b.len() <= 3) || b.len() <= 2 {
            for pos in 0..=b.len() {
                for nz in &noise {
                    for t in [Term::CrLf, Term::Cr, Term::LfNoFinal, Term::LfLf] {
                        if thorough && t == Term::CrLf {
                            continue; // already added above
                        }
                        let mut f = b.clone();
                        f.insert(pos, Line::Noise(nz));
                        files.push((f, t));
                    }
                }
            }
        }
        // the unterminated sourceFile header followed, anywhere later, by a line starting with `"}`
        if !thorough && b.len() <= 3 {
            for p1 in 0..=b.len() {
                for p2 in p1..=b.len() {
                    let mut f = b.clone();
                    f.insert(p2, Line::Noise(b"\"}"));
                    f.insert(p1, Line::Noise(NOISE_UNTERMINATED));
                    files.push((f, Term::Lf));
                }
            }
        }
        if thorough && b.len() <= 2 {
            for p1 in 0..=b.len() {
                for p2 in p1..=b.len() {
                    for n1 in &noise {
                        for n2 in &noise {
                            let mut f = b.clone();
                            f.insert(p2, Line::Noise(n2));
                            f.insert(p1, Line::Noise(n1));
                            files.push((f, Term::Lf));
                        }
                    }
                }
            }
        }
        // block permutations when the class names are pairwise distinct
        let mut blocks: Vec<Vec<Line>> = Vec::new();
        let mut head: Vec<Line> = Vec::new();
        for l in b {
            if matches!(l, Line::Class { .. }) {
                blocks.push(vec![*l]);
            } else if let Some(last) = blocks.last_mut() {
                last.push(*l);
            } else {
                head.push(*l);
            }
        }
        let names: Vec<S> = blocks.iter().map(|bl| if let Line::Class { obf, .. } = bl[0] { obf } else { "" }).collect();
        let distinct = (0..names.len()).all(|i| (i + 1..names.len()).all(|j| names[i] != names[j]));
        if blocks.len() >= 2 && distinct && head.is_empty() {
            let mut perm: Vec<usize> = (0..blocks.len()).collect();
            permute(&mut perm, 0, &mut |p| {
                if p.iter().enumerate().any(|(i, x)| i != *x) {
                    let mut f = Vec::new();
                    for &i in p {
                        f.extend_from_slice(&blocks[i]);
                    }
                    files.push((f, Term::Lf));
                }
            });
        }
    }
    ListSpace {
        name: "MS-E form invariance".into(),
        note: "every MS-B file of <=3 lines and MS-C files, under: each terminator policy (CRLF, CR, LF without final newline, blank line after every line); one noise line under LF (and, for bases of <= 2 lines, under every terminator policy) (blank, 'garbage', '    garbage', 'a -> b', '  int x -> y', invalid UTF-8, '\"}', unterminated sourceFile header, R8's indented member-level '# {json}' comments with 6 and 4 blanks) at every position (thorough: two); every permutation of class blocks with pairwise distinct names".into(),
        files,
        wide: false,
        chunk: Default::default(),
    }
}

/// MS-E2: runs of N identical noise lines (an implementation that gives up after many bad lines would lose the rest)
pub fn ms_e_runs(level: usize) -> ListSpace {
    let mut files = Vec::new();
    {
        let base = vec![class("p.A", "a"), method(Some((1, 2)), None, "p", "", Orig::SE(3, 4), "m"), class("p.B", "b"), method(None, None, "q", "int", Orig::None, "n")];
        for n in [100usize, 1000, 1001, 10000, 10001, 65536] {
            if level == 0 && n > 1001 {
                continue;
            }
            for nz in [&b"garbage"[..], b"    1:void broken() -> x"] {
                for pos in [0usize, 2, 4] {
                    let mut f: Vec<Line> = base[..pos].to_vec();
                    f.extend(std::iter::repeat(Line::Noise(nz)).take(n));
                    f.extend_from_slice(&base[pos..]);
                    files.push((f, Term::Lf));
                }
            }
        }
    }
    ListSpace { name: "MS-E2 noise runs".into(), note: "runs of 100..65536 identical noise lines before, between and after two class blocks".into(), files, wide: false, chunk: Default::default() }
}

fn permute(p: &mut Vec<usize>, k: usize, f: &mut dyn FnMut(&[usize])) {
    if k == p.len() {
        f(p);
        return;
    }
    for i in k..p.len() {
        p.swap(k, i);
        permute(p, k + 1, f);
        p.swap(k, i);
    }
}

// ---------------------------------------------------------------------------------------------
// per-thread scratch + the state visit

pub struct Ctx {
    pub bytes: Vec<u8>,
    pub abuf: Aligned,
}
impl Ctx {
    pub fn new() -> Ctx {
        Ctx { bytes: Vec::new(), abuf: Aligned::new(&[]) }
    }
}

#[derive(Clone, Copy, PartialEq, Eq, Debug)]
pub enum Prop {
    C01,
    C02,
    C03,
    C04,
}
impl Prop {
    pub fn id(self) -> &'static str {
        match self {
            Prop::C01 => "C01",
            Prop::C02 => "C02",
            Prop::C03 => "C03",
            Prop::C04 => "C04",
        }
    }
}

fn frames_diff(m: &[MFrame<'_>], s: &[Fr<'_>]) -> Option<&'static str> {
    if m.len() != s.len() {
        return Some("count");
    }
    for (a, b) in m.iter().zip(s.iter()) {
        if a.class != b.class {
            return Some("class");
        }
        if a.method != b.method {
            return Some("method");
        }
        if a.line as u128 != b.line as u128 {
            return Some("line");
        }
        if a.file != b.file {
            return Some("file");
        }
        if a.params != b.params {
            return Some("params");
        }
    }
    None
}

fn fr_json(f: &[Fr<'_>]) -> Value {
    json!(f.iter().map(|x| json!({"class":x.class,"method":x.method,"line":x.line as u64,"file":x.file,"params":x.params})).collect::<Vec<_>>())
}
fn mf_json(f: &[MFrame<'_>]) -> Value {
    json!(f.iter().map(|x| json!({"class":x.class,"method":x.method,"line":x.line,"file":x.file,"params":x.params})).collect::<Vec<_>>())
}

/// Visit one state under one model-based oracle (C01, C03, C04).
pub fn visit_model(prop: Prop, lines: &[Line], term: Term, wide: bool, ctx: &mut Ctx, acc: &mut Acc) {
    print_file_into(lines, term, &mut ctx.bytes);
    let bytes = std::mem::take(&mut ctx.bytes);
    let model = if lines.len() > 40 { Model::fold_indexed(lines) } else { Model::fold(lines) };
    let unis = universes_for(lines, wide);
    acc.states += 1;
    let size = bytes.len();
    let case = |q: Value, exp: Value, got: Value| -> Value {
        let mut c = file_to_json(lines, term);
        c["wide"] = json!(wide);
        c["oracle"] = json!(prop.id());
        c["query"] = q;
        c["expected"] = exp;
        c["observed"] = got;
        c
    };
    let r = guarded(|| {
        cur::with_subjects(&bytes, &mut ctx.abuf, |mapper, mapper_p, cache, _cbytes| {
            let subjects: [&dyn Subj; 3] = [mapper, mapper_p, cache];
            for uni in &unis {
                match prop {
                    Prop::C01 => oracle_c01(&model, uni, &subjects, acc, size, &case),
                    Prop::C03 => oracle_c03(&model, uni, &subjects, acc, size, &case),
                    Prop::C04 => oracle_c04(&model, uni, &subjects, acc, size, &case),
                    Prop::C02 => unreachable!(),
                }
            }
        })
    });
    match r {
        Ok(Ok(())) => {}
        Ok(Err(e)) => {
            let kind = e.split(':').next().unwrap_or("").replace(' ', "-");
            acc.violation(format!("pipeline:{}", kind), size, || {
                (format!("building the subjects failed: {}", e), case(json!(null), json!("mapper, cache written and parsed"), json!(e)))
            });
        }
        Err(p) => {
            acc.violation(format!("panic:{}", panic_site(&p)), size, || {
                (format!("panic while building or querying: {}", p), case(json!(null), json!("no panic"), json!(p)))
            });
        }
    }
    acc.sample(2, || json!({"mapping": esc(&bytes), "scope_terminator": term.name(), "queries": "complete universe Q(M)"}));
    ctx.bytes = bytes;
}

pub type CaseFn<'c> = dyn Fn(Value, Value, Value) -> Value + 'c;

/// run one model-based oracle with a caller-supplied model / universe / subjects (corpus visitor)
pub fn run_oracle<'u>(prop: Prop, model: &'u Model, uni: &'u Universe, subjects: &[&'u dyn Subj; 3], acc: &mut Acc, size: usize, case: &CaseFn<'_>) {
    match prop {
        Prop::C01 => oracle_c01(model, uni, subjects, acc, size, case),
        Prop::C03 => oracle_c03(model, uni, subjects, acc, size, case),
        Prop::C04 => oracle_c04(model, uni, subjects, acc, size, case),
        Prop::C02 => {}
    }
}

const LABELS: [&str; 3] = ["mapper", "mapper-index", "cache"];

#[allow(clippy::too_many_arguments)]
fn c01_one<'u>(
    model: &'u Model,
    subjects: &[&'u dyn Subj; 3],
    class: &'u str,
    method: &'u str,
    line: usize,
    file: Option<&'u str>,
    mout: &mut Vec<MFrame<'u>>,
    sout: &mut Vec<Fr<'u>>,
    seen: &mut std::collections::HashSet<u64>,
    acc: &mut Acc,
    size: usize,
    case: &CaseFn<'_>,
) {
    model.frames(class, method, line as u64, file, mout);
    acc.outcome(h64(&("byline", &mout[..])), !mout.is_empty());
    for (i, s) in subjects.iter().enumerate() {
        s.remap_frame(class, method, line, file, None, sout);
        acc.observations += 1;
        if let Some(field) = frames_diff(mout, sout) {
            acc.violation(format!("{}:byline:{}", LABELS[i], field), size, || {
                (
                    format!("remap_frame({:?},{:?},line {}, file {:?}) on {}: expected {} got {}", class, method, line, file, LABELS[i], mf_json(mout), fr_json(sout)),
                    case(json!({"kind":"byline","class":class,"method":method,"line":line as u64,"file":file,"subject":LABELS[i]}), mf_json(mout), fr_json(sout)),
                )
            });
        }
        // once per distinct (subject, class, method, result) of this state
        if !sout.is_empty() && seen.insert(h64(&(i, class, method, sout.len(), sout.iter().map(|f| (f.class.as_ptr() as usize, f.method.as_ptr() as usize, f.line, f.file.map(|x| x.as_ptr() as usize))).collect::<Vec<_>>()))) {
            acc.observations += 1;
            if let Some(d) = s.frame_protocol(class, method, line, file, None) {
                acc.violation(format!("{}:byline:iterator-protocol", LABELS[i]), size, || {
                    (
                        format!("remap_frame({:?},{:?},line {}, file {:?}) on {}: {}", class, method, line, file, LABELS[i], d),
                        case(json!({"kind":"byline","class":class,"method":method,"line":line as u64,"file":file,"subject":LABELS[i]}), json!("every way of consuming the iterator sees the sequence of repeated next()"), json!(d)),
                    )
                });
            }
        }
    }
}

fn oracle_c01<'u>(model: &'u Model, uni: &'u Universe, subjects: &[&'u dyn Subj; 3], acc: &mut Acc, size: usize, case: &CaseFn<'_>) {
    let mut mout: Vec<MFrame<'u>> = Vec::new();
    let mut sout: Vec<Fr<'u>> = Vec::new();
    let mut seen: std::collections::HashSet<u64> = std::collections::HashSet::new();
    let files: [Option<&'static str>; 2] = [None, Some("F.java")];
    for class in &uni.classes {
        for method in uni.all_methods() {
            for &line in &uni.lines {
                for file in files {
                    // the frame's own file only matters for entries without sourceFile / foreign class: it is
                    // issued for every small line, the extreme lines are issued without a file
                    if file.is_some() && line > 200 {
                        continue;
                    }
                    c01_one(model, subjects, class, method, line, file, &mut mout, &mut sout, &mut seen, acc, size, case);
                }
            }
        }
    }
    for class in &uni.classes_other {
        for method in &uni.methods {
            for &line in &uni.lines_short {
                c01_one(model, subjects, class, method, line, None, &mut mout, &mut sout, &mut seen, acc, size, case);
            }
        }
    }
    // names with invisible affixes: one frame query each
    for class in &uni.classes_affixed {
        for method in uni.methods.iter().take(3) {
            c01_one(model, subjects, class, method, uni.lines_short.last().copied().unwrap_or(1), None, &mut mout, &mut sout, &mut seen, acc, size, case);
        }
    }
    for method in &uni.methods_affixed {
        for class in uni.classes.iter().take(3) {
            c01_one(model, subjects, class, method, uni.lines_short.last().copied().unwrap_or(1), None, &mut mout, &mut sout, &mut seen, acc, size, case);
        }
    }
    // frame files derived from the mapping's own class names
    for file in &uni.files_derived {
        for class in &uni.classes {
            for method in &uni.methods {
                for &line in &uni.lines_short {
                    c01_one(model, subjects, class, method, line, Some(file), &mut mout, &mut sout, &mut seen, acc, size, case);
                }
            }
        }
    }
}

fn oracle_c03(model: &Model, uni: &Universe, subjects: &[&dyn Subj; 3], acc: &mut Acc, size: usize, case: &CaseFn<'_>) {
    let mut mout: Vec<MFrame<'_>> = Vec::new();
    let mut sout: Vec<Fr<'_>> = Vec::new();
    let empty: Vec<MFrame<'_>> = Vec::new();
    for class in uni.all_classes() {
        for method in uni.all_methods() {
            for params in &uni.params {
                model.frames_by_params(class, method, params, &mut mout);
                acc.outcome(h64(&("byparams", &mout[..])), !mout.is_empty());
                for (i, s) in subjects.iter().enumerate() {
                    s.remap_frame(class, method, 0, None, Some(params), &mut sout);
                    acc.observations += 1;
                    // subject 0 is the mapper built without the parameter index. The statement speaks of "the mapper built
                    // with parameter index" and the cache; a mapper without the index may stay silent (today's behaviour)
                    // or answer — but if it answers, it answers as the statement says.
                    let exp = if i == 0 && sout.is_empty() { &empty } else { &mout };
                    if let Some(field) = frames_diff(exp, &sout) {
                        let lab = if i == 0 { "mapper-noindex" } else { s.label() };
                        acc.violation(format!("{}:byparams:{}", lab, field), size, || {
                            (
                                format!("remap_frame({:?},{:?},params {:?}) on {}: expected {} got {}", class, method, params, lab, mf_json(exp), fr_json(&sout)),
                                case(json!({"kind":"byparams","class":class,"method":method,"params":params,"subject":lab}), mf_json(exp), fr_json(&sout)),
                            )
                        });
                    }
                    if !sout.is_empty() {
                        acc.observations += 1;
                        if let Some(d) = s.frame_protocol(class, method, 0, None, Some(params)) {
                            let lab = if i == 0 { "mapper-noindex" } else { s.label() };
                            acc.violation(format!("{}:byparams:iterator-protocol", lab), size, || {
                                (
                                    format!("remap_frame({:?},{:?},params {:?}) on {}: {}", class, method, params, lab, d),
                                    case(json!({"kind":"byparams","class":class,"method":method,"params":params,"subject":lab}), json!("every way of consuming the iterator sees the sequence of repeated next()"), json!(d)),
                                )
                            });
                        }
                    }
                }
            }
        }
    }
}

fn oracle_c04(model: &Model, uni: &Universe, subjects: &[&dyn Subj; 3], acc: &mut Acc, size: usize, case: &CaseFn<'_>) {
    let mut sout: Vec<Fr<'_>> = Vec::new();
    let labels = LABELS;
    // names with invisible affixes / changed case: class and method lookups
    for class in &uni.classes_affixed {
        let exp = model.class(class);
        for (i, s) in subjects.iter().enumerate() {
            acc.observations += 2;
            let got = s.remap_class(class);
            let gm = uni.methods.first().and_then(|m| s.remap_method(class, m));
            let em = uni.methods.first().and_then(|m| model.method(class, m));
            if got != exp || gm != em {
                acc.violation(format!("{}:class-affixed", labels[i]), size, || {
                    (format!("lookup of {:?} (a known name with an invisible affix / changed case) on {}: class expected {:?} got {:?}; method expected {:?} got {:?}", class, labels[i], exp, got, em, gm), case(json!({"kind":"class","class":class,"subject":labels[i]}), json!(exp), json!(got)))
                });
            }
        }
    }
    for method in &uni.methods_affixed {
        for class in uni.classes.iter().take(4) {
            let exp = model.method(class, method);
            for (i, s) in subjects.iter().enumerate() {
                acc.observations += 1;
                let got = s.remap_method(class, method);
                if got != exp {
                    acc.violation(format!("{}:method-affixed", labels[i]), size, || {
                        (format!("remap_method({:?},{:?}) on {}: expected {:?} got {:?}", class, method, labels[i], exp, got), case(json!({"kind":"method","class":class,"method":method,"subject":labels[i]}), json!(format!("{:?}", exp)), json!(format!("{:?}", got))))
                    });
                }
            }
        }
    }
    for class in uni.all_classes() {
        let exp = model.class(class);
        acc.outcome(h64(&("class", exp)), exp.is_some());
        for (i, s) in subjects.iter().enumerate() {
            let got = s.remap_class(class);
            acc.observations += 1;
            if got != exp {
                acc.violation(format!("{}:class", labels[i]), size, || {
                    (
                        format!("remap_class({:?}) on {}: expected {:?} got {:?}", class, labels[i], exp, got),
                        case(json!({"kind":"class","class":class,"subject":labels[i]}), json!(exp), json!(got)),
                    )
                });
            }
            for msg in [None, Some("boom: x")] {
                let got = s.remap_throwable(class, msg);
                let expt = exp.map(|c| (c, msg));
                acc.observations += 1;
                if got != expt {
                    acc.violation(format!("{}:throwable", labels[i]), size, || {
                        (
                            format!("remap_throwable({:?},{:?}) on {}: expected {:?} got {:?}", class, msg, labels[i], expt, got),
                            case(json!({"kind":"throwable","class":class,"message":msg,"subject":labels[i]}), json!(format!("{:?}", expt)), json!(format!("{:?}", got))),
                        )
                    });
                }
            }
        }
        for method in uni.all_methods() {
            let exp = model.method(class, method);
            acc.outcome(h64(&("method", exp)), exp.is_some());
            for (i, s) in subjects.iter().enumerate() {
                let got = s.remap_method(class, method);
                acc.observations += 1;
                if got != exp {
                    acc.violation(format!("{}:method", labels[i]), size, || {
                        (
                            format!("remap_method({:?},{:?}) on {}: expected {:?} got {:?}", class, method, labels[i], exp, got),
                            case(json!({"kind":"method","class":class,"method":method,"subject":labels[i]}), json!(format!("{:?}", exp)), json!(format!("{:?}", got))),
                        )
                    });
                }
                // consistency clause, evaluated on the implementation itself
                if let Some((_, n)) = got {
                    for &line in &uni.lines {
                        s.remap_frame(class, method, line, None, None, &mut sout);
                        acc.observations += 1;
                        if let Some(bad) = sout.iter().find(|f| f.method != n) {
                            let bad = bad.method.to_string();
                            acc.violation(format!("{}:method-consistency", labels[i]), size, || {
                                (
                                    format!("remap_method({:?},{:?}) answered {:?} but remap_frame at line {} produced method {:?}", class, method, n, line, bad),
                                    case(json!({"kind":"method-consistency","class":class,"method":method,"line":line as u64,"subject":labels[i]}), json!(n), json!(bad)),
                                )
                            });
                        }
                    }
                }
            }
        }
    }
}

