//! Reference model: a deliberately boring re-statement of the property texts (rules R1–R11 of
//! DESIGN.md §2) evaluated on the generating AST. Vectors and linear scans only.

use crate::ast::{Line, Orig, S};

#[derive(Clone, Debug)]
pub struct Entry {
    pub obf: S,
    pub name: S,
    pub args: S,
    pub cls: Option<S>,
    /// R1: the obfuscated range, present iff both printed numbers are > 0
    pub usable: Option<(u64, u64)>,
    /// R2
    pub os: u64,
    pub oe: Option<u64>,
    /// most recent sourceFile header between the block's class line and this entry (I1)
    pub file: Option<S>,
    /// R10: has a usable range and the next record is a method entry with the identical usable range
    pub inlined_callee: bool,
    /// R10: not an inlined callee and the first of its (obfuscated, arguments, original) in the block (set by `fold`)
    pub bp_survivor: bool,
}

#[derive(Clone, Debug)]
pub struct Block {
    pub orig: S,
    pub obf: S,
    pub entries: Vec<Entry>,
}

#[derive(Clone, Debug, Default)]
pub struct Model {
    pub blocks: Vec<Block>,
    /// only for corpus-sized files: obfuscated class name -> index of the LAST block with that name
    /// (the same R8, pre-computed; absent for the enumerated scopes, where `block` scans)
    pub index: Option<std::collections::HashMap<S, usize>>,
}

impl std::hash::Hash for MFrame<'_> {
    fn hash<H: std::hash::Hasher>(&self, h: &mut H) {
        use crate::subj::hash_str;
        hash_str(self.class, h);
        hash_str(self.method, h);
        self.line.hash(h);
        hash_str(self.file.unwrap_or("\u{0}none"), h);
        hash_str(self.params.unwrap_or("\u{0}none"), h);
    }
}

#[derive(Clone, Copy, PartialEq, Eq, Debug)]
pub struct MFrame<'a> {
    pub class: &'a str,
    pub method: &'a str,
    pub line: u64,
    pub file: Option<&'a str>,
    pub params: Option<&'a str>,
}

fn usable(range: Option<(u64, u64)>) -> Option<(u64, u64)> {
    match range {
        Some((s, e)) if s > 0 && e > 0 => Some((s, e)),
        _ => None,
    }
}

/// text after the last '.', up to the first '$'
pub fn outer_simple_name(class: &str) -> &str {
    let last = match class.rfind('.') {
        Some(i) => &class[i + 1..],
        None => class,
    };
    match last.find('$') {
        Some(i) => &last[..i],
        None => last,
    }
}

impl Model {
    pub fn fold(lines: &[Line]) -> Model {
        let mut blocks: Vec<Block> = Vec::new();
        let mut file: Option<S> = None;
        for (i, l) in lines.iter().enumerate() {
            match *l {
                Line::Class { orig, obf } => {
                    blocks.push(Block { orig, obf, entries: Vec::new() });
                    file = None;
                }
                Line::SourceFile(name) => file = Some(name),
                Line::Header { key, value } => {
                    if key == "sourceFile" {
                        file = value;
                    }
                }
                Line::Field { .. } | Line::Noise(_) => {}
                Line::Method { range, cls, name, args, orig, obf, .. } => {
                    let u = usable(range);
                    let (os, oe) = match (u, orig) {
                        (None, _) => (0, None),
                        (Some((s, e)), Orig::None) => (s, Some(e)),
                        (Some(_), Orig::S(a)) => (a, None),
                        (Some(_), Orig::SE(a, b)) => (a, Some(b)),
                    };
                    // next *record* (noise lines are not records)
                    let next = lines[i + 1..].iter().find(|x| !matches!(x, Line::Noise(_)));
                    let inlined_callee = match (u, next) {
                        (Some(r), Some(Line::Method { range: nr, .. })) => usable(*nr) == Some(r),
                        _ => false,
                    };
                    if let Some(b) = blocks.last_mut() {
                        b.entries.push(Entry { obf, name, args, cls, usable: u, os, oe, file, inlined_callee, bp_survivor: false });
                    }
                }
            }
        }
        // R10 de-duplication, per block, in file order (a set of keys; nothing else)
        for b in blocks.iter_mut() {
            let mut seen: std::collections::HashSet<(S, S, S)> = std::collections::HashSet::new();
            for e in b.entries.iter_mut() {
                e.bp_survivor = !e.inlined_callee && seen.insert((e.obf, e.args, e.name));
            }
        }
        Model { blocks, index: None }
    }

    pub fn fold_indexed(lines: &[Line]) -> Model {
        let mut m = Model::fold(lines);
        let mut idx = std::collections::HashMap::new();
        for (i, b) in m.blocks.iter().enumerate() {
            idx.insert(b.obf, i); // later blocks overwrite earlier ones: last wins
        }
        m.index = Some(idx);
        m
    }

    /// R8
    pub fn block(&self, obf_class: &str) -> Option<&Block> {
        if let Some(idx) = &self.index {
            return idx.get(obf_class).map(|i| &self.blocks[*i]);
        }
        self.blocks.iter().rev().find(|b| b.obf == obf_class)
    }

    pub fn class(&self, obf_class: &str) -> Option<S> {
        self.block(obf_class).map(|b| b.orig)
    }

    /// R9
    pub fn method(&self, obf_class: &str, obf_method: &str) -> Option<(S, S)> {
        let b = self.block(obf_class)?;
        let mut it = b.entries.iter().filter(|e| e.obf == obf_method);
        let first = it.next()?;
        if it.all(|e| e.name == first.name) {
            Some((b.orig, first.name))
        } else {
            None
        }
    }

    /// R3–R7
    pub fn frames<'a>(
        &'a self,
        obf_class: &str,
        obf_method: &str,
        line: u64,
        file: Option<&'a str>,
        out: &mut Vec<MFrame<'a>>,
    ) {
        out.clear();
        let Some(b) = self.block(obf_class) else { return };
        for e in b.entries.iter().filter(|e| e.obf == obf_method) {
            if let Some((s, en)) = e.usable {
                if !(s <= line && line <= en) {
                    continue;
                }
            }
            let l = match (e.usable, e.oe) {
                (None, _) => 0,
                (Some(_), None) => e.os,
                (Some(_), Some(oe)) if oe == e.os => e.os,
                (Some((s, _)), Some(_)) => e.os + (line - s),
            };
            let class = e.cls.unwrap_or(b.orig);
            let f = match e.file {
                Some("R8$$SyntheticClass") => Some(outer_simple_name(class)),
                Some(f) => Some(f),
                None if e.cls.is_some() => None,
                None => file,
            };
            out.push(MFrame { class, method: e.name, line: l, file: f, params: None });
        }
    }

    /// R10 + R5
    pub fn frames_by_params<'a>(
        &'a self,
        obf_class: &str,
        obf_method: &str,
        params: &'a str,
        out: &mut Vec<MFrame<'a>>,
    ) {
        out.clear();
        let Some(b) = self.block(obf_class) else { return };
        for e in b.entries.iter().filter(|e| e.bp_survivor) {
            if e.obf == obf_method && e.args == params {
                out.push(MFrame { class: e.cls.unwrap_or(b.orig), method: e.name, line: 0, file: None, params: Some(params) });
            }
        }
    }

    // ---- derived quantities used by the cache-layout oracle (C09) -----------------------------

    /// the blocks that survive R8, i.e. one per distinct obfuscated class name (the last one)
    pub fn surviving_blocks(&self) -> Vec<&Block> {
        let mut v: Vec<&Block> = Vec::new();
        for (i, b) in self.blocks.iter().enumerate() {
            if !self.blocks[i + 1..].iter().any(|x| x.obf == b.obf) {
                v.push(b);
            }
        }
        v
    }

    /// R10 survivors of a block, in file order
    pub fn by_params_survivors(b: &Block) -> Vec<&Entry> {
        b.entries.iter().filter(|e| e.bp_survivor).collect()
    }
}
