//! Families that small alphabets cannot contain: sizes beyond implementation thresholds (sort
//! algorithms switching strategy above 20 / 32 elements, LEB128 prefix lengths, 1 KiB / 64 KiB / 1 MiB
//! limits), character classes (every UTF-8 continuation byte, every lead-byte class, ASCII punctuation),
//! and name relations (prefix / suffix / concatenation collisions). Each family is a finite, explicitly
//! enumerated list; all of it is explored in every run that names it.

use crate::ast::*;
use crate::e1::ListSpace;

/// deterministic shuffle (no randomness: a fixed multiplicative permutation)
fn perm(n: usize, i: usize, mul: usize, add: usize) -> usize {
    (i * mul + add) % n.max(1)
}

fn name(prefix: &str, i: usize) -> S {
    leak(&format!("{}{:03}", prefix, i))
}

pub const SIZES_ENTRIES: [usize; 6] = [20, 21, 33, 40, 64, 129];
pub const SIZES_CLASSES: [usize; 5] = [20, 21, 33, 64, 301];
pub const INLINE_DEPTHS: [usize; 5] = [31, 32, 33, 34, 100];
pub const NAME_LENGTHS: [usize; 13] = [127, 128, 129, 255, 256, 1023, 1024, 1025, 16383, 16384, 65535, 65536, 65537];

/// MS-S scale family
pub fn scale_family(with_long_names: bool) -> ListSpace {
    let mut files: Vec<(Vec<Line>, Term)> = Vec::new();
    // (a) one class with N member entries: obfuscated names in shuffled order; per name an inline group of 3
    //     (identical ranges, innermost first) followed by two same-(name, args) entries with different originals
    //     and different ranges (both survive the inline filter; their order is file order)
    for &n in &SIZES_ENTRIES {
        for variant in 0..2usize {
            let groups = (n + 4) / 5;
            let mut f = vec![class("s.Big", "big")];
            let mut count = 0;
            for g in 0..groups {
                let gi = perm(groups, g, 7 + 4 * variant, 3);
                let obf = name("m", gi);
                let base = 10 * (gi as u64) + 1;
                for (k, orig) in ["inner", "mid", "outer"].iter().enumerate() {
                    if count < n {
                        f.push(method(Some((base, base + 2)), if k == 0 { Some("s.Callee") } else { None }, leak(&format!("{}{}", orig, gi)), "", Orig::SE(100 + k as u64, 102 + k as u64), obf));
                        count += 1;
                    }
                }
                for (k, orig) in ["zeta", "alpha"].iter().enumerate() {
                    if count < n {
                        f.push(method(Some((base + 5 + k as u64, base + 5 + k as u64)), None, leak(&format!("{}{}", orig, gi)), "int", Orig::None, obf));
                        count += 1;
                    }
                }
            }
            files.push((f, Term::Lf));
        }
    }
    // (b) N class lines in shuffled order, every 5th obfuscated name declared twice (the last one wins), one entry each
    for &n in &SIZES_CLASSES {
        for variant in 0..2usize {
            let mut f = Vec::new();
            for i in 0..n {
                let ci = perm(n, i, 11 + 2 * variant, 5);
                let obf = name("c", ci);
                f.push(class(leak(&format!("o.First{}", ci)), obf));
                f.push(method(None, None, leak(&format!("f{}", ci)), "", Orig::None, "m"));
                if ci % 5 == 0 {
                    // re-declared later, after some other classes
                    let later = perm(n, i + 3, 11 + 2 * variant, 5);
                    f.push(class(leak(&format!("o.Mid{}", later)), name("x", later)));
                    f.push(class(leak(&format!("o.Second{}", ci)), obf));
                    f.push(method(None, None, leak(&format!("s{}", ci)), "", Orig::None, "m"));
                }
            }
            files.push((f, Term::Lf));
        }
    }
    // (c) inline depth K: K entries with the identical range, all applying at line 1
    for &k in &INLINE_DEPTHS {
        let mut f = vec![class("s.Deep", "deep")];
        for i in 0..k {
            f.push(method(Some((1, 1)), if i % 2 == 0 { Some("s.Lib") } else { None }, name("lvl", i), "", Orig::S(10 + i as u64), "k"));
        }
        f.push(method(Some((2, 2)), None, "other", "", Orig::None, "k"));
        files.push((f, Term::Lf));
    }
    // (e) one obfuscated method name with M entries whose single-line ranges come in DESCENDING order, and one in
    //     a zig-zag order (nothing in the format promises ascending start lines)
    for &m in &[33usize, 129, 401, 450, 1000] {
        for zig in [false, true] {
            let mut f = vec![class("s.Desc", "desc")];
            for i in 0..m {
                let k = if zig { if i % 2 == 0 { i / 2 } else { m - 1 - i / 2 } } else { m - 1 - i } as u64;
                f.push(method(Some((k + 1, k + 1)), None, leak(&format!("o{}", k)), "", Orig::S(1000 + k), "d"));
            }
            files.push((f, Term::Lf));
        }
    }
    // (d) long names in every role (LEB128 prefix lengths 1/2/3; 1 KiB and 64 KiB thresholds)
    if with_long_names {
        for &l in &NAME_LENGTHS {
            let a = leak(&"a".repeat(l));
            let b = leak(&format!("{}b", "a".repeat(l - 1)));
            let args: S = leak(&(0..(l / 24).clamp(1, 60)).map(|i| format!("java.lang.String{:06}", i)).collect::<Vec<_>>().join(","));
            // long obfuscated class between two short ones (binary search passes through it), long original, long method names
            files.push((
                vec![
                    class("s.Before", "a"),
                    method(None, None, "p", "", Orig::None, "m"),
                    class(b, a),
                    Line::SourceFile(a),
                    method(Some((1, 2)), Some(b), a, args, Orig::SE(3, 4), b),
                    method(None, None, "q", "int", Orig::None, a),
                    class("s.After", "k.x"),
                    method(None, None, "r", "", Orig::None, "m"),
                ],
                Term::Lf,
            ));
        }
    }
    ListSpace {
        name: "MS-S scale family".into(),
        note: format!("one class with N in {:?} entries (shuffled names, inline groups of 3, same-(name,args) entries with different originals); N in {:?} class lines in shuffled order with re-declared names; inline depth K in {:?}; names of {:?} bytes in every role", SIZES_ENTRIES, SIZES_CLASSES, INLINE_DEPTHS, if with_long_names { &NAME_LENGTHS[..] } else { &[][..] }),
        files,
        wide: false,
        chunk: Default::default(),
    }
}

pub const SORTED_RUN_SIZES: [usize; 7] = [16, 17, 32, 33, 64, 65, 100];

/// MS-S (f) sorted runs with one irregular entry: one obfuscated method with N entries whose ranges ascend and are
/// disjoint (entry i covers lines 4i+1..4i+2) - the shape on which an implementation may switch to a binary search
/// or a line index - plus ONE further entry, at every position (for N > 33: a fixed selection of positions), that
/// breaks the regularity: an inverted range, an inverted range reaching far back, a range enclosing the next
/// three, a range enclosing everything, an entry without range, a 0:0 entry, a duplicate range (inline pair) and a
/// range that starts like its predecessor but ends earlier. All lines 0..=4N+20 are queried (Q(M)).
pub fn sorted_run_family() -> ListSpace {
    let mut files: Vec<(Vec<Line>, Term)> = Vec::new();
    for &n in &SORTED_RUN_SIZES {
        let positions: Vec<usize> = if n <= 33 {
            (0..=n).collect()
        } else {
            let mut v = vec![0, 1, 2, n / 4, n / 2 - 1, n / 2, n / 2 + 1, 3 * n / 4, n - 2, n - 1, n];
            v.extend((0..n).step_by(8));
            v.sort();
            v.dedup();
            v
        };
        for &p in &positions {
            let p4 = 4 * p as u64;
            let kinds: [(Option<(u64, u64)>, Orig); 8] = [
                (Some((p4.max(3), p4.max(3) - 2)), Orig::S(7000)),      // inverted, a line lies strictly between end and start
                (Some((p4 + 1, 3)), Orig::SE(7000, 7001)),             // inverted, reaching far back
                (Some((p4.max(1), p4 + 14)), Orig::SE(7000, 7014)),    // encloses the next three
                (Some((p4.max(1), 4 * n as u64 + 9)), Orig::S(7000)),  // encloses everything behind it
                (None, Orig::None),                                    // no range: always applies
                (Some((0, 0)), Orig::SE(0, 0)),                        // 0:0: no usable range
                (Some((p4 + 1, p4 + 2)), Orig::S(7000)),               // same range as its successor: inline pair
                (Some((p4.saturating_sub(3).max(1), p4.saturating_sub(3).max(1))), Orig::None), // starts like the predecessor, ends earlier
            ];
            for (range, orig) in kinds {
                let mut f = vec![class("s.Run", "run")];
                for i in 0..=n {
                    if i == p {
                        f.push(method(range, None, "odd", "", orig, "s"));
                    }
                    if i < n {
                        let b = 4 * i as u64;
                        f.push(method(Some((b + 1, b + 2)), None, leak(&format!("o{}", i)), "", Orig::SE(1000 + b, 1001 + b), "s"));
                    }
                }
                files.push((f, Term::Lf));
            }
        }
    }
    ListSpace {
        name: "MS-S (f) sorted runs with one irregular entry".into(),
        note: format!("one obfuscated method with N in {:?} ascending disjoint ranges plus one irregular entry (inverted / inverted far back / enclosing the next three / enclosing everything / no range / 0:0 / duplicate range / same start, earlier end) at every position (N > 33: 11 fixed positions and every 8th)", SORTED_RUN_SIZES),
        files,
        wide: false,
        chunk: Default::default(),
    }
}

/// the metadata comments R8 writes below class and member lines (retrace's `rewriteFrame`, `synthesized`, `outline`,
/// `outlineCallsite`, `residualsignature`): the text behind "# "
pub fn r8_comment_texts() -> Vec<String> {
    let mut v = Vec::new();
    for thrown in ["La;", "Lp/A;", "Ljava/lang/NullPointerException;"] {
        for n in ["0", "1", "2", "3", "40", "4294967295", "4294967296", "18446744073709551615", "-1"] {
            v.push(format!("{{\"id\":\"com.android.tools.r8.rewriteFrame\",\"conditions\":[\"throws({})\"],\"actions\":[\"removeInnerFrames({})\"]}}", thrown, n));
        }
    }
    v.push("{\"id\":\"com.android.tools.r8.synthesized\"}".into());
    v.push("{\"id\":\"com.android.tools.r8.outline\"}".into());
    v.push("{\"id\":\"com.android.tools.r8.outlineCallsite\",\"positions\":{\"1\":4,\"2\":5},\"outline\":\"La;m()V\"}".into());
    v.push("{\"id\":\"com.android.tools.r8.residualsignature\",\"signature\":\"(I)V\"}".into());
    v.push("{\"id\":\"com.android.tools.r8.mapping\",\"version\":\"2.2\"}".into());
    v
}

/// MS-M R8 metadata family: one small mapping (an inline pair, a third range, a second class) with one R8 metadata
/// comment at every position, at column 0 (a header record of the documented grammar: inert unless its key is
/// `sourceFile`) and indented by 4 and 6 blanks (not records of the documented grammar: noise)
pub fn r8_metadata_family() -> ListSpace {
    let base = vec![
        class("p.A", "a"),
        method(Some((1, 5)), Some("p.Util"), "inner", "", Orig::SE(10, 14), "m"),
        method(Some((1, 5)), None, "outer", "", Orig::S(20), "m"),
        method(Some((7, 7)), None, "other", "int", Orig::None, "m"),
        class("q.B", "b"),
        method(None, None, "n", "", Orig::None, "n"),
    ];
    let mut files: Vec<(Vec<Line>, Term)> = Vec::new();
    for text in r8_comment_texts() {
        for indent in [0usize, 4, 6] {
            let line = if indent == 0 { Line::Header { key: leak(&text), value: None } } else { Line::Noise(leak_bytes(format!("{}# {}", " ".repeat(indent), text).as_bytes())) };
            for pos in 1..=base.len() {
                let mut f = base.clone();
                f.insert(pos, line);
                files.push((f, Term::Lf));
            }
        }
    }
    ListSpace { name: "MS-M R8 metadata comments".into(), note: "a 6-line mapping (inline pair, third range, second class) with one of 32 R8 metadata comments (rewriteFrame with 3 thrown types x 9 counts, synthesized, outline, outlineCallsite, residualsignature, mapping version) at every position, at column 0 and indented by 4 / 6 blanks".into(), files, wide: false, chunk: Default::default() }
}

/// MS-H2 far-apart repeats: two entries of one obfuscated method that share their original name, with more distinct
/// strings (> 65536) and - in the second file - more entries (> 65536) between them than any plausible bound on an
/// interning / de-duplication table or a 16-bit index; the same original name again in a second class
pub fn far_apart_family(both: bool) -> ListSpace {
    far_apart_family_level(if both { 2 } else { 0 })
}
/// level 0: 23000 fillers; 1: also 66000 fillers (more than 2^16 entries); 2: also 750000 fillers (> 2^21 strings)
pub fn far_apart_family_level(level: usize) -> ListSpace {
    let both = level >= 1;
    let huge = level >= 2;
    let mut files: Vec<(Vec<Line>, Term)> = Vec::new();
    for (fillers, with_args) in [(23000usize, true), (66000usize, false), (750000usize, true)] {
        if (!both && !with_args) || (!huge && fillers > 100000) {
            continue;
        }
        let mut f = Vec::with_capacity(fillers + 8);
        f.push(class("o.Far", "f"));
        // the first of the two same-name entries sits behind 1000 fillers (a position counter that wraps at 2^16
        // would give the later one the smaller position)
        for i in 0..fillers {
            if i == 1000 {
                f.push(method(None, None, "create", "", Orig::None, "c"));
            }
            f.push(method(None, None, leak(&format!("orig{}", i)), if with_args { leak(&format!("a.T{}", i)) } else { "" }, Orig::None, leak(&format!("m{}", i))));
        }
        f.push(method(None, None, "create", "int", Orig::None, "c"));
        f.push(method(Some((1, 2)), None, "create", "long", Orig::SE(5, 6), "c"));
        f.push(class("o.Far2", "g"));
        f.push(method(None, None, "create", "", Orig::None, "c"));
        files.push((f, Term::Lf));
    }
    ListSpace { name: "MS-H2 far-apart repeats".into(), note: "one class in which two entries of one obfuscated method share their original name with 23000 filler methods (69000 distinct strings) between them; optionally the same with 66000 fillers (more than 2^16 entries)".into(), files, wide: false, chunk: Default::default() }
}

/// MS-V late first member: k member-less class lines / comment lines / noise lines in front of the first class that
/// has members (k around the 50-item window of `is_valid`): nothing in C01..C04 may depend on whether the file
/// "looks valid" early
pub fn late_member_family() -> ListSpace {
    let mut files: Vec<(Vec<Line>, Term)> = Vec::new();
    for k in [48usize, 49, 50, 51, 60] {
        for kind in 0..3usize {
            let mut f = Vec::new();
            for i in 0..k {
                f.push(match kind {
                    0 => class(leak(&format!("androidx.annotation.M{}", i)), leak(&format!("m{:02}", i))),
                    1 => Line::Header { key: "comment", value: Some("x") },
                    _ => Line::Noise(b"garbage"),
                });
            }
            f.push(class("p.A", "a"));
            f.push(method(Some((1, 2)), Some("x.Y"), "inner", "int", Orig::SE(3, 4), "m"));
            f.push(method(Some((1, 2)), None, "outer", "int", Orig::S(9), "m"));
            f.push(method(None, None, "q", "", Orig::None, "n"));
            files.push((f, Term::Lf));
        }
    }
    ListSpace { name: "MS-V late first member".into(), note: "48..60 member-less class lines / header lines / noise lines before the first class with members".into(), files, wide: false, chunk: Default::default() }
}

/// MS-H3 one large multi-class mapping (about 17 MiB of text, 24000 classes of 10 methods): beyond any size at which a
/// writer might split the work between threads or cores; strings shared between far-apart classes
pub fn big_multiclass_family() -> ListSpace {
    let n = 24000usize;
    let mut f = Vec::with_capacity(n * 11);
    for i in 0..n {
        f.push(class(leak(&format!("com.example.generated.module{}.GeneratedClassNumber{}", i % 37, i)), leak(&format!("c{:05}", perm(n, i, 7, 3)))));
        for j in 0..10usize {
            f.push(method(Some((1 + j as u64, 2 + j as u64)), None, leak(&format!("methodNameNumber{}", (i + j) % 211)), "java.lang.String,int", Orig::SE(3, 4), leak(&format!("m{}", j % 4))));
        }
    }
    ListSpace { name: "MS-H3 large multi-class mapping".into(), note: "one mapping of 24000 classes x 10 methods (about 17 MiB of text) with strings shared between far-apart classes".into(), files: vec![(f, Term::Lf)], wide: false, chunk: Default::default() }
}

/// MS-W file-level headers in front of classes whose members are NOT in the order of their obfuscated names: nothing a
/// `# compiler: ...` / `# min_api` / `# pg_map_id` header says may change how members are collected
pub fn file_header_family() -> ListSpace {
    let mut files: Vec<(Vec<Line>, Term)> = Vec::new();
    let body = vec![
        class("p.A", "a"),
        method(Some((1, 2)), None, "zeta", "", Orig::SE(3, 4), "z"),
        method(None, None, "alpha", "int", Orig::None, "a"),
        method(Some((5, 6)), None, "mid", "", Orig::S(9), "m"),
        method(None, None, "alpha2", "", Orig::None, "a"),
        class("p.B", "b"),
        method(None, None, "q", "", Orig::None, "n"),
        method(None, None, "p", "", Orig::None, "b"),
    ];
    for (k, v) in [("compiler", Some("R8")), ("compiler", Some("D8")), ("compiler", Some("ProGuard")), ("compiler_version", Some("8.1.56")), ("min_api", Some("21")), ("pg_map_id", Some("1a2b3c")), ("pg_map_hash", Some("SHA-256 0123")), ("common_typos_disable", None)] {
        let h = Line::Header { key: k, value: v };
        let mut f = vec![h];
        f.extend_from_slice(&body);
        files.push((f, Term::Lf));
        // the header behind the first class line
        let mut g = body.clone();
        g.insert(1, h);
        files.push((g, Term::Lf));
    }
    ListSpace { name: "MS-W file-level headers".into(), note: "8 file-level headers (compiler R8 / D8 / ProGuard, compiler_version, min_api, pg_map_id, pg_map_hash, a valueless one) in front of / inside two classes whose members are not ordered by obfuscated name".into(), files, wide: false, chunk: Default::default() }
}

/// one character per UTF-8 lead-byte class, all 64 continuation bytes (U+0100..U+013F = C4 80 .. C4 BF), and ASCII punctuation
pub fn special_chars() -> Vec<char> {
    let mut v: Vec<char> = Vec::new();
    for k in 0..64u32 {
        v.push(char::from_u32(0x100 + k).unwrap());
    }
    for c in ['\u{80}', '\u{85}', '\u{a0}', '\u{7ff}', '\u{800}', '\u{2028}', '\u{3000}', '\u{d7ff}', '\u{e000}', '\u{ff21}', '\u{fffd}', '\u{10000}', '\u{20000}', '\u{10ffff}'] {
        v.push(c);
    }
    for c in ['/', '\\', '$', '-', '<', '>', '[', ']', ';', '@', '"', '\'', '{', '}', '~', '`', '!', '%', '^', '&', '*', '+', '=', '|', '?', '_', '0'] {
        v.push(c);
    }
    v
}

/// characters whose relative order differs between byte order, UTF-16 code-unit order and code-point order
pub const SORT_POOL: [&str; 14] = ["!", "A", "a", "~", "\u{80}", "\u{7ff}", "\u{800}", "\u{d7ff}", "\u{e000}", "\u{ff21}", "\u{fffd}", "\u{10000}", "\u{20000}", "\u{10ffff}"];

/// MS-U character-class family (names that a mapping line can legally carry)
pub fn unicode_family() -> ListSpace {
    let mut files: Vec<(Vec<Line>, Term)> = Vec::new();
    // (a) every special character inside a class name / method name / argument string / sourceFile
    for c in special_chars() {
        // characters that are delimiters of the line grammar itself cannot be part of these names
        let in_class = !matches!(c, ':' | ' ');
        let in_member = !matches!(c, ' ' | '(' | ')');
        let n1 = leak(&format!("x{}y", c));
        let n2 = leak(&format!("p.q{}.R", c));
        if in_class && in_member && c != '"' {
            files.push((
                vec![
                    class(n2, n1),
                    Line::SourceFile(leak(&format!("F{}.kt", c))),
                    method(Some((1, 2)), None, leak(&format!("m{}", c)), leak(&format!("t.A{},int", c)), Orig::SE(3, 4), leak(&format!("o{}", c))),
                    method(None, Some(n2), "plain", "", Orig::None, leak(&format!("o{}", c))),
                ],
                Term::Lf,
            ));
        }
    }
    // (b) sort order: every ordered pair and triple of the sort pool as class names and as method names
    let n = SORT_POOL.len();
    for i in 0..n {
        for j in 0..n {
            for k in 0..=n {
                let mut sel = vec![i, j];
                if k < n {
                    sel.push(k);
                }
                let mut f = Vec::new();
                for (pos, &s) in sel.iter().enumerate() {
                    f.push(class(["o.One", "o.Two", "o.Three"][pos], leak(&format!("a{}", SORT_POOL[s]))));
                    f.push(method(None, None, ["p", "q", "r"][pos], "", Orig::None, "m"));
                }
                files.push((f, Term::Lf));
                if k == n {
                    // the same pair as method names inside one class
                    let mut g = vec![class("p.A", "a")];
                    for (pos, &s) in sel.iter().enumerate() {
                        g.push(method(None, None, ["p", "q"][pos], SORT_POOL[(s + 1) % n], Orig::None, leak(&format!("m{}", SORT_POOL[s]))));
                    }
                    files.push((g, Term::Lf));
                }
            }
        }
    }
    // (c) class-name shapes for the synthetic-file rule: '$' before '.', leading '$', trailing '$' / '.', doubled '$'
    for cls in ["c.gen$v2.Widget$$Lambda0", "$Lead.x.Y", "a.b$", "a$b.c$d.E", "NoPkg$1", "p.$Dollar", "p.q.", "p..Q$R", "\u{e9}.\u{dc}$\u{fc}"] {
        for foreign in [None, Some("f.gen$x.Other$1"), Some("g.H")] {
            files.push((
                vec![class(leak(cls), "e"), Line::SourceFile("R8$$SyntheticClass"), method(Some((1, 2)), foreign, "p", "", Orig::SE(3, 4), "m"), method(None, None, "q", "", Orig::None, "m")],
                Term::Lf,
            ));
        }
    }
    // (d) obfuscated class names inside well-known package prefixes (nothing exempts them from remapping)
    for (obf, obf2) in [("java.util.a", "javax.inject.b"), ("android.app.c", "kotlin.d"), ("sun.misc.e", "com.android.f"), ("java.lang.String", "java.lang.Object")] {
        files.push((
            vec![class("com.example.ShimOne", obf), method(Some((1, 2)), None, "one", obf2, Orig::SE(3, 4), "m"), class("com.example.ShimTwo", obf2), Line::SourceFile("Shim.kt"), method(None, Some("com.example.ShimOne"), "two", "", Orig::None, "m")],
            Term::Lf,
        ));
    }
    ListSpace {
        name: "MS-U character-class family".into(),
        note: "every one of 105 special characters (all 64 UTF-8 continuation bytes as second byte, one character per lead-byte class incl. U+0085 U+00A0 U+2028 U+3000 U+FF21 U+10000 U+20000 U+10FFFF, ASCII punctuation incl. / \\ $ ; @ \") inside class / method / argument / sourceFile names; every ordered pair and triple of a 14-character pool whose byte order, UTF-16 order and code-point order differ, as class names and as method names; 9 class-name shapes for the synthetic-file rule ('$' before '.', leading / trailing '$' or '.')".into(),
        files,
        wide: false,
        chunk: Default::default(),
    }
}

/// MS-R name-relation family: obfuscated names, original names and argument strings that are prefixes,
/// suffixes and concatenations of each other
pub fn relation_family() -> ListSpace {
    let obfs: [S; 3] = ["a", "aa", "ab"];
    let origs: [S; 4] = ["a", "b", "ab", "ba"];
    let argss: [S; 3] = ["", "a", "b"];
    let mut alpha = Vec::new();
    for o in obfs {
        for n in origs {
            for a in argss {
                alpha.push(method(None, None, n, a, Orig::None, o));
            }
        }
    }
    let mut files = Vec::new();
    let cls = class("a.b", "a");
    for x in &alpha {
        files.push((vec![cls, *x], Term::Lf));
        for y in &alpha {
            files.push((vec![cls, *x, *y], Term::Lf));
        }
    }
    // triples over the sub-alphabet without argument strings
    let sub: Vec<Line> = alpha.iter().copied().filter(|l| matches!(l, Line::Method { args: "", .. })).collect();
    for x in &sub {
        for y in &sub {
            for z in &sub {
                files.push((vec![cls, *x, *y, *z], Term::Lf));
            }
        }
    }
    ListSpace {
        name: "MS-R name-relation family".into(),
        note: "one class; entries over obfuscated {a, aa, ab} x original {a, b, ab, ba} x arguments {'', a, b}: all sequences of <= 2 entries, and <= 3 over the sub-alphabet without arguments (names that are prefixes / suffixes / concatenations of each other)".into(),
        files,
        wide: false,
        chunk: Default::default(),
    }
}

/// MS-H huge-count family (structure-only checks: layout, length, determinism): N classes with one entry each
/// for N around 64 KiB / 28 bytes per class entry, and one class with M distinct methods
pub fn huge_family(giant_methods: usize) -> ListSpace {
    let with_giant_class = giant_methods > 0;
    let mut files: Vec<(Vec<Line>, Term)> = Vec::new();
    for n in [147usize, 300, 2340, 2341, 4682, 9363] {
        let mut f = Vec::with_capacity(2 * n);
        for i in 0..n {
            f.push(class(leak(&format!("o.C{}", i)), leak(&format!("c{:05}", perm(n, i, 7, 1)))));
            f.push(method(None, None, "p", "", Orig::None, "m"));
        }
        files.push((f, Term::Lf));
    }
    // more distinct signatures than any plausible cap on a de-duplication set (4096, 8192, 65536), then repeats of
    // the earliest ones (which a capped set may have forgotten)
    for cap in [4100usize, 8200, 66000] {
        let mut f = Vec::with_capacity(cap + 400);
        f.push(class("o.Capped", "k"));
        for i in 0..cap {
            f.push(method(None, None, leak(&format!("orig{}", i)), "", Orig::None, leak(&format!("m{}", i))));
        }
        for i in 0..300 {
            f.push(method(None, None, leak(&format!("orig{}", i)), "", Orig::None, leak(&format!("m{}", i))));
        }
        files.push((f, Term::Lf));
    }
    if with_giant_class {
        // ~ 2^32 pairs of distinct methods: a 32-bit fingerprint used as identity collides somewhere
        let m = giant_methods;
        let mut f = Vec::with_capacity(m + 1);
        f.push(class("o.Giant", "g"));
        for i in 0..m {
            f.push(method(None, None, leak(&format!("orig{}", i)), "", Orig::None, leak(&format!("m{}", i))));
        }
        files.push((f, Term::Lf));
    }
    ListSpace { name: "MS-H huge-count family".into(), note: "N in {147, 300, 2340, 2341, 4682, 9363} classes with one entry each (class table crossing 4 KiB and 64 KiB block sizes); one class with 4100 / 8200 / 66000 distinct methods followed by repeats of the first 300; optionally one class with 150000 (quick) / 400000 (thorough) distinct methods".into(), files, wide: false, chunk: Default::default() }
}

// ---------------------------------------------------------------------------------------------
// MS-X: names that collide under common 32-bit fingerprints (an implementation that identifies a name by a
// truncated hash confuses exactly these). Found by a birthday search over "o.k<hex>" at start-up.

fn fnv1a64(b: &[u8]) -> u64 {
    let mut h: u64 = 0xcbf29ce484222325;
    for x in b {
        h ^= *x as u64;
        h = h.wrapping_mul(0x100000001b3);
    }
    h
}
fn fnv1a32(b: &[u8]) -> u32 {
    let mut h: u32 = 0x811c9dc5;
    for x in b {
        h ^= *x as u32;
        h = h.wrapping_mul(0x01000193);
    }
    h
}
fn djb2(b: &[u8]) -> u32 {
    let mut h: u32 = 5381;
    for x in b {
        h = h.wrapping_mul(33).wrapping_add(*x as u32);
    }
    h
}
fn java_hash(b: &[u8]) -> u32 {
    let mut h: u32 = 0;
    for x in b {
        h = h.wrapping_mul(31).wrapping_add(*x as u32);
    }
    h
}
fn crc32(b: &[u8]) -> u32 {
    let mut c: u32 = !0;
    for x in b {
        c ^= *x as u32;
        for _ in 0..8 {
            c = if c & 1 != 0 { (c >> 1) ^ 0xEDB88320 } else { c >> 1 };
        }
    }
    !c
}
#[allow(deprecated)]
fn sip_str(s: &str) -> u64 {
    use std::hash::{Hash, Hasher};
    let mut h = std::collections::hash_map::DefaultHasher::new();
    s.hash(&mut h);
    h.finish()
}
fn sip_bytes(s: &str) -> u64 {
    use std::hash::Hasher;
    let mut h = std::collections::hash_map::DefaultHasher::new();
    h.write(s.as_bytes());
    h.finish()
}

/// (fingerprint name, first name, second name)
pub fn collision_pairs() -> &'static Vec<(&'static str, String, String)> {
    static P: std::sync::OnceLock<Vec<(&'static str, String, String)>> = std::sync::OnceLock::new();
    P.get_or_init(|| {
        let funcs: Vec<(&'static str, Box<dyn Fn(&str) -> u32>)> = vec![
            ("DefaultHasher(str) low 32", Box::new(|s| sip_str(s) as u32)),
            ("DefaultHasher(str) high 32", Box::new(|s| (sip_str(s) >> 32) as u32)),
            ("DefaultHasher(bytes) low 32", Box::new(|s| sip_bytes(s) as u32)),
            ("DefaultHasher(bytes) high 32", Box::new(|s| (sip_bytes(s) >> 32) as u32)),
            ("FNV-1a 64 low 32", Box::new(|s| fnv1a64(s.as_bytes()) as u32)),
            ("FNV-1a 64 folded", Box::new(|s| { let h = fnv1a64(s.as_bytes()); (h ^ (h >> 32)) as u32 })),
            ("FNV-1a 32", Box::new(|s| fnv1a32(s.as_bytes()))),
            ("djb2", Box::new(|s| djb2(s.as_bytes()))),
            ("java hashCode", Box::new(|s| java_hash(s.as_bytes()))),
            ("CRC-32", Box::new(|s| crc32(s.as_bytes()))),
        ];
        let mut out = Vec::new();
        for (label, f) in funcs {
            let mut seen: std::collections::HashMap<u32, u32> = std::collections::HashMap::new();
            let mut found = 0;
            for i in 0..1_000_000u32 {
                let n = format!("o.k{:x}", i);
                let h = f(&n);
                if let Some(j) = seen.insert(h, i) {
                    out.push((label, format!("o.k{:x}", j), n));
                    found += 1;
                    if found == 2 {
                        break;
                    }
                }
            }
        }
        out
    })
}

/// MS-X as mappings: every colliding pair as two classes (each with its own entry), in both orders
pub fn collision_family() -> ListSpace {
    let mut files = Vec::new();
    for (_, a, b) in collision_pairs() {
        for (x, y) in [(a, b), (b, a)] {
            files.push((
                vec![
                    class("x.First", leak(x)),
                    method(Some((1, 2)), None, "one", "", Orig::SE(3, 4), "m"),
                    class("x.Second", leak(y)),
                    method(None, None, "two", "int", Orig::None, "m"),
                    method(None, None, "three", "int", Orig::None, "n"),
                ],
                Term::Lf,
            ));
        }
    }
    ListSpace { name: "MS-X fingerprint-collision family".into(), note: "pairs of class names that collide under ten common 32-bit fingerprints (DefaultHasher low/high half over str and bytes, FNV-1a 64 truncated / folded, FNV-1a 32, djb2, Java hashCode, CRC-32), found by a birthday search over o.k<hex>; each pair as two classes, both orders".into(), files, wide: false, chunk: Default::default() }
}

/// MS-G giant strings: names whose LEB128 length prefix needs 4 bytes (>= 2^21 bytes)
pub fn giant_family() -> ListSpace {
    let mut files = Vec::new();
    for l in [(1usize << 21) - 1, 1 << 21, (1 << 21) + 1] {
        let a = leak(&"g".repeat(l));
        let b = leak(&format!("{}h", "g".repeat(l - 1)));
        files.push((vec![class("s.Before", "a"), method(None, None, "p", "", Orig::None, "m"), class(b, a), method(Some((1, 2)), None, a, "", Orig::SE(3, 4), b), class("s.After", "k.x"), method(None, None, "r", "", Orig::None, "m")], Term::Lf));
    }
    ListSpace { name: "MS-G giant strings".into(), note: "class / method names of 2^21-1, 2^21 and 2^21+1 bytes (4-byte LEB128 length prefix)".into(), files, wide: false, chunk: Default::default() }
}

/// MS-L alignment family: tokens of >= 32 bytes whose first bytes are not UTF-8 (a word-at-a-time fast path that
/// skips the unaligned head of a token would accept or reject them depending on the buffer address)
pub fn alignment_family() -> ListSpace {
    let mut files = Vec::new();
    for head in 1..=7usize {
        let mut bad: Vec<u8> = vec![0xff; head];
        bad.extend(std::iter::repeat(b'q').take(40));
        let mut l1 = bad.clone();
        l1.extend_from_slice(b" -> b:");
        let mut l2 = b"    int ".to_vec();
        l2.extend_from_slice(&bad);
        l2.extend_from_slice(b" -> c");
        let mut l3 = b"    1:2:void ".to_vec();
        l3.extend_from_slice(&bad);
        l3.extend_from_slice(b"() -> d");
        for pad in 0..8usize {
            // `pad` bytes of header in front shift every later token by one more address residue
            let hdr = leak_bytes(format!("#{}", "x".repeat(pad)).as_bytes());
            files.push((vec![Line::Noise(hdr), class("p.A", "a"), Line::Noise(leak_bytes(&l1)), method(None, None, "p", "", Orig::None, "m"), Line::Noise(leak_bytes(&l2)), Line::Noise(leak_bytes(&l3)), class("p.B", "b")], Term::Lf));
        }
    }
    ListSpace { name: "MS-L alignment family".into(), note: "class / field / method lines whose 41..47-byte name starts with 1..7 bytes that are not UTF-8, behind headers of 1..8 bytes (every address residue modulo 8)".into(), files, wide: false, chunk: Default::default() }
}
