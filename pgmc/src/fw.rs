//! Framework: accumulators, parallel shard runner, evidence / replay / known-findings plumbing.
//!
//! Every engine is a *bounded-exhaustive explorer*: it enumerates a finite, stated space completely
//! (unless a wall-clock cap is hit, in which case `exhaustive` is false and the evidence says so),
//! runs the real code in every state and hands the observation to an oracle.

use serde_json::{json, Value};
use std::cell::RefCell;
use std::collections::{BTreeMap, HashSet};
use std::hash::{Hash, Hasher};
use std::sync::atomic::{AtomicBool, AtomicUsize, Ordering};
use std::time::{Duration, Instant};

/// root of the verification tree (evidence/, replays/, known_findings.txt, shim/, target/scratch);
/// `bin/check` exports its own location so that a snapshot copy never writes into /verif
pub fn verif_dir() -> String {
    std::env::var("PGMC_VERIF_DIR").unwrap_or_else(|_| "/verif".to_string())
}
/// the tree the harness was built against (`bin/scratchcheck` builds against a scratch worktree and says so here;
/// only used to find the corpus files and for the source scan of C20's assumption record)
pub fn repo_dir() -> String {
    std::env::var("PGMC_REPO_DIR").unwrap_or_else(|_| "/repo".to_string())
}

#[derive(Clone, Copy, PartialEq, Eq, Debug)]
pub enum Tier {
    Quick,
    Thorough,
}
impl Tier {
    pub fn name(self) -> &'static str {
        match self {
            Tier::Quick => "quick",
            Tier::Thorough => "thorough",
        }
    }
    pub fn thorough(self) -> bool {
        self == Tier::Thorough
    }
}

/// Deterministic 64-bit hash (SipHash with fixed zero keys).
pub fn h64<T: Hash + ?Sized>(t: &T) -> u64 {
    #[allow(deprecated)]
    let mut h = std::hash::SipHasher::new();
    t.hash(&mut h);
    h.finish()
}

#[derive(Clone, Debug)]
pub struct Violation {
    /// names the failing site / rule, not only the property; used for known-finding matching
    pub sig: String,
    pub desc: String,
    /// self-contained case description; `pgmc replay` re-runs it
    pub case: Value,
    /// smaller = simpler witness
    pub size: usize,
}

#[derive(Default)]
pub struct Acc {
    pub states: u64,
    pub transitions: u64,
    /// (state, query) observations in which the oracle's prediction was compared with the real code
    pub observations: u64,
    pub outcomes: HashSet<u64>,
    pub nontrivial: HashSet<u64>,
    pub violations: BTreeMap<String, Violation>,
    pub violation_count: u64,
    pub samples: Vec<Value>,
    pub counters: BTreeMap<String, u64>,
    pub notes: Vec<String>,
}

pub const OUTCOME_CAP: usize = 4_000_000;

impl Acc {
    pub fn new() -> Self {
        Self::default()
    }
    #[inline]
    pub fn outcome(&mut self, h: u64, nontrivial: bool) {
        if self.outcomes.len() < OUTCOME_CAP {
            self.outcomes.insert(h);
        }
        if nontrivial && self.nontrivial.len() < OUTCOME_CAP {
            self.nontrivial.insert(h);
        }
    }
    pub fn count(&mut self, key: &str, n: u64) {
        *self.counters.entry(key.to_string()).or_insert(0) += n;
    }
    pub fn sample(&mut self, max: usize, f: impl FnOnce() -> Value) {
        if self.samples.len() < max {
            let v = f();
            // keep the evidence readable: a sample of a giant input is recorded by its size only
            let text = v.to_string();
            if text.len() > 6000 {
                self.samples.push(json!({"sample_too_large_to_print_bytes": text.len(), "head": text.chars().take(300).collect::<String>()}));
            } else {
                self.samples.push(v);
            }
        }
    }
    pub fn violation(&mut self, sig: impl Into<String>, size: usize, desc: impl FnOnce() -> (String, Value)) {
        self.violation_count += 1;
        let sig = sig.into();
        let replace = match self.violations.get(&sig) {
            None => true,
            Some(v) => size < v.size,
        };
        if replace {
            let (desc, case) = desc();
            let v = Violation { sig: sig.clone(), desc, case, size };
            journal_append(&v);
            self.violations.insert(sig, v);
        }
    }
    pub fn merge(&mut self, o: Acc) {
        self.states += o.states;
        self.transitions += o.transitions;
        self.observations += o.observations;
        for h in o.outcomes {
            if self.outcomes.len() < OUTCOME_CAP {
                self.outcomes.insert(h);
            }
        }
        for h in o.nontrivial {
            if self.nontrivial.len() < OUTCOME_CAP {
                self.nontrivial.insert(h);
            }
        }
        self.violation_count += o.violation_count;
        for (k, v) in o.violations {
            let replace = match self.violations.get(&k) {
                None => true,
                Some(old) => {
                    v.size < old.size || (v.size == old.size && v.case.to_string() < old.case.to_string())
                }
            };
            if replace {
                self.violations.insert(k, v);
            }
        }
        for s in o.samples {
            self.samples.push(s);
        }
        for (k, v) in o.counters {
            *self.counters.entry(k).or_insert(0) += v;
        }
        for n in o.notes {
            if !self.notes.contains(&n) {
                self.notes.push(n);
            }
        }
    }
}

/// Wall-clock cap shared by all workers of one run.
pub struct Budget {
    start: Instant,
    cap: Duration,
    hit: AtomicBool,
}
impl Budget {
    pub fn new(cap_s: u64) -> Self {
        // PGMC_CAP_S overrides the wall-clock cap (calibration runs)
        let cap_s = std::env::var("PGMC_CAP_S").ok().and_then(|s| s.parse().ok()).unwrap_or(cap_s);
        Budget { start: Instant::now(), cap: Duration::from_secs(cap_s), hit: AtomicBool::new(false) }
    }
    #[inline]
    pub fn exceeded(&self) -> bool {
        if self.hit.load(Ordering::Relaxed) {
            return true;
        }
        if self.start.elapsed() > self.cap {
            self.hit.store(true, Ordering::Relaxed);
            return true;
        }
        false
    }
    pub fn was_hit(&self) -> bool {
        self.hit.load(Ordering::Relaxed)
    }
    pub fn elapsed(&self) -> f64 {
        self.start.elapsed().as_secs_f64()
    }
}

/// Violations are journalled the moment they are found (one JSON line each, O_APPEND): when a later subject call
/// never returns (or kills the process) the supervisor still has them, re-executes each one and reports those that
/// reproduce (`journal_report`), instead of ending without a verdict.
pub fn journal_append(v: &Violation) {
    let Some(path) = std::env::var_os("PGMC_JOURNAL") else { return };
    let line = json!({"sig": v.sig, "size": v.size, "desc": v.desc, "case": v.case}).to_string();
    if line.len() > (8 << 20) {
        return;
    }
    use std::io::Write;
    if let Ok(mut f) = std::fs::OpenOptions::new().create(true).append(true).open(path) {
        let _ = f.write_all((line + "\n").as_bytes());
    }
}

/// a work item has not returned long after the cap: report what was journalled (re-executed in a fresh process)
pub fn stuck_recover() -> ! {
    let journal = std::env::var("PGMC_JOURNAL").unwrap_or_default();
    let prop = std::env::var("PGMC_PROP").unwrap_or_default();
    let have = !journal.is_empty() && !prop.is_empty() && std::fs::metadata(&journal).map(|m| m.len() > 0).unwrap_or(false);
    if !have {
        eprintln!("MACHINERY-ERROR: a work item did not return within 45 s after the wall-clock cap (a subject call that does not terminate?) and no violation had been recorded before; no verdict");
        std::process::exit(2);
    }
    eprintln!("note: a work item did not return within 45 s after the wall-clock cap (a subject call that does not terminate?)");
    let exe = std::env::current_exe().expect("current_exe");
    let st = std::process::Command::new(exe).args(["journal", &prop, &journal]).env("PGMC_CHILD", "1").env_remove("PGMC_JOURNAL").status();
    let _ = std::fs::remove_file(&journal);
    std::process::exit(st.ok().and_then(|s| s.code()).unwrap_or(2));
}

/// Supervisor fallback: the checking process did not finish (hung or killed). Re-execute the journalled violations,
/// smallest first, and report the ones that reproduce. Exit 1 if any unlisted violation reproduced, else 2.
pub fn journal_report(prop: &str, path: &str, recheck: &dyn Fn(&Value) -> Vec<String>) -> i32 {
    let txt = std::fs::read_to_string(path).unwrap_or_default();
    let mut best: BTreeMap<String, Violation> = BTreeMap::new();
    for l in txt.lines() {
        let Ok(v) = serde_json::from_str::<Value>(l) else { continue };
        let sig = v["sig"].as_str().unwrap_or("").to_string();
        let size = v["size"].as_u64().unwrap_or(0) as usize;
        if sig.is_empty() {
            continue;
        }
        let cand = Violation { sig: sig.clone(), desc: v["desc"].as_str().unwrap_or("").to_string(), case: v["case"].clone(), size };
        match best.get(&sig) {
            Some(o) if o.size <= size => {}
            _ => {
                best.insert(sig, cand);
            }
        }
    }
    if best.is_empty() {
        eprintln!("MACHINERY-ERROR: the checker did not finish and had found no violation before; no verdict");
        return 2;
    }
    let reported = std::sync::Arc::new(AtomicUsize::new(0));
    {
        // own deadline: a journalled case may itself be the one that never returns
        let reported = reported.clone();
        std::thread::spawn(move || {
            std::thread::sleep(std::time::Duration::from_secs(300));
            eprintln!("note: re-execution of the journalled violations stopped after 300 s");
            std::process::exit(if reported.load(Ordering::SeqCst) > 0 { 1 } else { 2 });
        });
    }
    let known = Known::load();
    let dir = format!("{}/replays/{}", verif_dir(), prop);
    let _ = std::fs::remove_dir_all(&dir);
    let mut vs: Vec<Violation> = best.into_values().collect();
    vs.sort_by_key(|v| v.size);
    println!("note: the {} check did not run to completion (a subject call that does not return, or the process was killed); re-executing the {} violation(s) it had recorded before", prop, vs.len());
    let _ = recheck;
    let exe = std::env::current_exe().expect("current_exe");
    for (k, v) in vs.iter().enumerate() {
        // every re-execution in its own process with its own deadline: the journalled case may be the very input
        // on which the subject does not return
        let tmp = format!("{}.case{}.json", path, k);
        let _ = std::fs::write(&tmp, v.case.to_string());
        let mut child = match std::process::Command::new(&exe).args(["recheck-one", prop, &tmp]).env("PGMC_CHILD", "1").env_remove("PGMC_JOURNAL").stdout(std::process::Stdio::piped()).stderr(std::process::Stdio::null()).spawn() {
            Ok(c) => c,
            Err(_) => continue,
        };
        let t0 = Instant::now();
        let mut hung = false;
        let mut killed: Option<i32> = None;
        loop {
            match child.try_wait() {
                Ok(Some(st)) => {
                    use std::os::unix::process::ExitStatusExt;
                    killed = st.signal();
                    break;
                }
                Ok(None) if t0.elapsed() > Duration::from_secs(60) => {
                    let _ = child.kill();
                    let _ = child.wait();
                    hung = true;
                    break;
                }
                _ => std::thread::sleep(Duration::from_millis(20)),
            }
        }
        let mut out = String::new();
        if let Some(mut so) = child.stdout.take() {
            use std::io::Read;
            let _ = so.read_to_string(&mut out);
        }
        let _ = std::fs::remove_file(&tmp);
        let again: Vec<String> = out.lines().filter_map(|l| l.strip_prefix("SIG ").map(|s| s.to_string())).collect();
        let mut desc = v.desc.clone();
        if hung {
            desc = format!("{} [re-executing this case did not terminate within 60 s]", desc);
        } else if let Some(sg) = killed {
            desc = format!("{} [re-executing this case killed its process with signal {}]", desc, sg);
        } else if !again.iter().any(|s| s == &v.sig) {
            eprintln!("note: journalled violation sig={} did not reproduce on re-execution (got {:?})", v.sig, again);
            continue;
        }
        let v = &Violation { sig: v.sig.clone(), desc, case: v.case.clone(), size: v.size };
        if let Some(d) = known.lookup(prop, &v.sig) {
            println!("KNOWN-FINDING: property={} sig={} {}", prop, v.sig, d);
            continue;
        }
        let _ = std::fs::create_dir_all(&dir);
        let path = format!("{}/{}.json", dir, sanitize(&v.sig));
        let body = json!({"property": prop, "sig": v.sig, "description": v.desc, "case": v.case, "replay": format!("bin/check {} --replay {}", prop, path)});
        std::fs::write(&path, serde_json::to_string_pretty(&body).unwrap()).expect("write replay");
        println!("VIOLATION property={} replay={}", prop, path);
        println!("  sig={}  {}", v.sig, v.desc);
        reported.fetch_add(1, Ordering::SeqCst);
    }
    if reported.load(Ordering::SeqCst) > 0 {
        1
    } else {
        eprintln!("MACHINERY-ERROR: the checker did not finish and none of its journalled violations is reportable; no verdict");
        2
    }
}

/// the check's own process is brought down by the subject, reproducibly (see the supervisor in main.rs)
pub fn report_process_killed(prop: &str, sig: i32, thorough: bool) -> i32 {
    let signame = match sig { 4 => "SIGILL", 6 => "SIGABRT", 7 => "SIGBUS", 8 => "SIGFPE", 11 => "SIGSEGV", _ => "signal" };
    let vsig = format!("process-killed:{}", signame);
    let desc = format!("while the {} check was exercising the property's operations, a call into the library killed the process with {} (an abort - e.g. a violated unsafe precondition or a panic that cannot unwind - or a memory fault), twice in two runs; the check completes on a tree where the library returns from every call", prop, signame);
    let known = Known::load();
    if let Some(d) = known.lookup(prop, &vsig) {
        println!("KNOWN-FINDING: property={} sig={} {}", prop, vsig, d);
        return 0;
    }
    let dir = format!("{}/replays/{}", verif_dir(), prop);
    let _ = std::fs::create_dir_all(&dir);
    let path = format!("{}/{}.json", dir, sanitize(&vsig));
    let body = json!({"property": prop, "sig": vsig, "description": desc, "case": {"kind":"whole-check","tier": if thorough { "thorough" } else { "quick" }}, "replay": format!("bin/check {} {}", prop, if thorough { "thorough" } else { "quick" })});
    let _ = std::fs::write(&path, serde_json::to_string_pretty(&body).unwrap());
    println!("VIOLATION property={} replay={}", prop, path);
    println!("  sig={}  {}", vsig, desc);
    1
}

pub fn nthreads() -> usize {
    std::env::var("PGMC_THREADS").ok().and_then(|s| s.parse().ok()).unwrap_or_else(|| {
        std::thread::available_parallelism().map(|n| n.get()).unwrap_or(4).min(16)
    })
}

/// Run `f` over all work items on a pool of threads. Items are claimed in index order (rotated by
/// VERIF_SEED, which can therefore not change a verdict, only the order of work); each worker has
/// a private accumulator; the merge is order-independent.
pub fn par_run<W: Sync>(items: &[W], budget: &Budget, f: impl Fn(&W, &mut Acc, &Budget) + Sync) -> Acc {
    let next = AtomicUsize::new(0);
    let n = items.len();
    let rot = if n > 0 { (verif_seed() as usize) % n } else { 0 };
    let skipped = AtomicUsize::new(0);
    let threads = nthreads().min(n.max(1));
    let mut total = Acc::new();
    let finished = AtomicBool::new(false);
    std::thread::scope(|s| {
        // stuck-worker monitor: a subject call that has not returned 45 s after the wall-clock cap will not return
        // (every engine polls the budget); hand over to the journal recovery instead of waiting to be killed
        s.spawn(|| loop {
            std::thread::sleep(Duration::from_millis(250));
            if finished.load(Ordering::SeqCst) {
                break;
            }
            if budget.start.elapsed() > budget.cap + Duration::from_secs(45) {
                stuck_recover();
            }
        });
        let mut hs = Vec::new();
        for _ in 0..threads {
            hs.push(
                std::thread::Builder::new()
                    .stack_size(64 << 20)
                    .spawn_scoped(s, || {
                        let mut acc = Acc::new();
                        loop {
                            let i = next.fetch_add(1, Ordering::Relaxed);
                            if i >= n {
                                break;
                            }
                            if budget.exceeded() {
                                skipped.fetch_add(1, Ordering::Relaxed);
                                continue;
                            }
                            f(&items[(i + rot) % n], &mut acc, budget);
                        }
                        acc
                    })
                    .unwrap(),
            );
        }
        for h in hs {
            match h.join() {
                Ok(a) => total.merge(a),
                Err(_) => {
                    eprintln!("MACHINERY-ERROR: a worker thread panicked outside a guarded subject call");
                    std::process::exit(2);
                }
            }
        }
        finished.store(true, Ordering::SeqCst);
    });
    let sk = skipped.load(Ordering::Relaxed);
    if sk > 0 {
        total.notes.push(format!("wall-clock cap hit: {} of {} work items not started", sk, n));
    }
    total
}

pub fn verif_seed() -> u64 {
    std::env::var("VERIF_SEED").ok().and_then(|s| s.parse::<i64>().ok()).map(|v| v as u64).unwrap_or(0)
}

// ---------------------------------------------------------------------------------------------
// panic capture

thread_local! {
    static LAST_PANIC: RefCell<Option<String>> = const { RefCell::new(None) };
}

pub fn install_panic_hook() {
    let default = std::panic::take_hook();
    std::panic::set_hook(Box::new(move |info| {
        let loc = info.location().map(|l| format!("{}:{}", short_path(l.file()), l.line())).unwrap_or_default();
        let msg = if let Some(s) = info.payload().downcast_ref::<&str>() {
            s.to_string()
        } else if let Some(s) = info.payload().downcast_ref::<String>() {
            s.clone()
        } else {
            "<non-string panic>".to_string()
        };
        if std::env::var_os("PGMC_LOUD_PANICS").is_some() {
            default(info);
        }
        LAST_PANIC.with(|p| *p.borrow_mut() = Some(format!("{} @ {}", msg, loc)));
    }));
}

fn short_path(p: &str) -> String {
    // keep the path from the crate directory on, so signatures do not depend on where things live
    for marker in ["/src/", "/library/"] {
        if let Some(i) = p.rfind(marker) {
            let head = &p[..i];
            let krate = head.rsplit('/').next().unwrap_or("");
            return format!("{}{}", krate, &p[i..]);
        }
    }
    p.to_string()
}

/// Run a subject call; a panic is returned as `Err("message @ file:line")`.
pub fn guarded<T>(f: impl FnOnce() -> T) -> Result<T, String> {
    match std::panic::catch_unwind(std::panic::AssertUnwindSafe(f)) {
        Ok(v) => Ok(v),
        Err(_) => Err(LAST_PANIC.with(|p| p.borrow_mut().take()).unwrap_or_else(|| "panic".into())),
    }
}

/// "msg @ file:line" -> "file:line" (a stable site name for signatures)
pub fn panic_site(p: &str) -> String {
    p.rsplit(" @ ").next().unwrap_or(p).to_string()
}

// ---------------------------------------------------------------------------------------------
// bytes <-> JSON (lossless, readable)

pub fn esc(bytes: &[u8]) -> String {
    let mut s = String::new();
    for &b in bytes {
        match b {
            b'\\' => s.push_str("\\\\"),
            b'\n' => s.push_str("\\n"),
            b'\r' => s.push_str("\\r"),
            b'\t' => s.push_str("\\t"),
            0x20..=0x7e => s.push(b as char),
            _ => s.push_str(&format!("\\x{:02x}", b)),
        }
    }
    s
}
pub fn unesc(s: &str) -> Vec<u8> {
    let b = s.as_bytes();
    let mut out = Vec::new();
    let mut i = 0;
    while i < b.len() {
        if b[i] == b'\\' && i + 1 < b.len() {
            match b[i + 1] {
                b'\\' => {
                    out.push(b'\\');
                    i += 2;
                }
                b'n' => {
                    out.push(b'\n');
                    i += 2;
                }
                b'r' => {
                    out.push(b'\r');
                    i += 2;
                }
                b't' => {
                    out.push(b'\t');
                    i += 2;
                }
                b'x' if i + 4 <= b.len() => {
                    let v = u8::from_str_radix(std::str::from_utf8(&b[i + 2..i + 4]).unwrap(), 16).unwrap();
                    out.push(v);
                    i += 4;
                }
                _ => {
                    out.push(b[i]);
                    i += 1;
                }
            }
        } else {
            out.push(b[i]);
            i += 1;
        }
    }
    out
}
pub fn hex(bytes: &[u8]) -> String {
    bytes.iter().map(|b| format!("{:02x}", b)).collect()
}
pub fn unhex(s: &str) -> Vec<u8> {
    (0..s.len() / 2).map(|i| u8::from_str_radix(&s[2 * i..2 * i + 2], 16).unwrap()).collect()
}

// ---------------------------------------------------------------------------------------------
// known findings

pub struct Known {
    pub known: Vec<(String, String, String)>, // (property, sig, description)
}
impl Known {
    pub fn load() -> Known {
        let mut known = Vec::new();
        let path = format!("{}/known_findings.txt", verif_dir());
        if let Ok(txt) = std::fs::read_to_string(&path) {
            for line in txt.lines() {
                let line = line.trim();
                if let Some(rest) = line.strip_prefix("known:") {
                    let rest = rest.trim();
                    let mut prop = String::new();
                    let mut sig = String::new();
                    let mut desc = Vec::new();
                    for tok in rest.split_whitespace() {
                        if let Some(p) = tok.strip_prefix("property=") {
                            if prop.is_empty() {
                                prop = p.to_string();
                                continue;
                            }
                        }
                        if let Some(s) = tok.strip_prefix("sig=") {
                            if sig.is_empty() {
                                sig = s.to_string();
                                continue;
                            }
                        }
                        desc.push(tok);
                    }
                    known.push((prop, sig, desc.join(" ")));
                }
                // `fixed:` lines suppress nothing.
            }
        }
        Known { known }
    }
    pub fn lookup(&self, prop: &str, sig: &str) -> Option<&str> {
        self.known.iter().find(|(p, s, _)| p == prop && s == sig).map(|(_, _, d)| d.as_str())
    }
}

// ---------------------------------------------------------------------------------------------
// run report

pub struct RunMeta {
    pub prop: &'static str,
    pub tier: Tier,
    pub level: &'static str,
    pub rule: String,
    pub bounds: Value,
    pub assumptions: Vec<String>,
    pub trusted_base: Vec<String>,
}

fn sanitize(s: &str) -> String {
    let t: String = s.chars().map(|c| if c.is_ascii_alphanumeric() || c == '-' || c == '_' || c == '.' { c } else { '_' }).collect();
    t.chars().take(100).collect()
}

/// Write evidence, replay files; print VIOLATION / KNOWN-FINDING lines; return the process exit code.
///
/// `recheck` re-executes one case on fresh objects and returns the signatures it reproduces; a
/// violation that does not reproduce is a machinery error (exit 2), never a verdict.
pub fn finish(
    meta: RunMeta,
    mut acc: Acc,
    budget: &Budget,
    recheck: &dyn Fn(&Value) -> Vec<String>,
) -> i32 {
    let known = Known::load();
    let capped = budget.was_hit() || acc.notes.iter().any(|n| n.contains("cap hit"));
    let mut exit = 0;
    let mut reported = Vec::new();
    let mut known_hits = Vec::new();
    let mut not_reproduced: Vec<String> = Vec::new();
    let dir = format!("{}/replays/{}", verif_dir(), meta.prop);
    let _ = std::fs::remove_dir_all(&dir);
    let mut viols: Vec<Violation> = acc.violations.values().cloned().collect();
    // re-execution, smallest case first. When a violation shows only on a very large input, re-executing every
    // signature on it can take minutes (and the supervisor would kill the check: no verdict at all). After 60 s of
    // re-executions - and once at least one violation HAS reproduced - the remaining ones are reported as recorded,
    // with that remark. (The explorations are deterministic; re-execution guards against harness slips, and the
    // sampling passes - whose cases are small - come first in this order.)
    viols.sort_by_key(|v| v.size);
    let t0 = Instant::now();
    let mut reproduced_any = false;
    for v in &mut viols {
        let over_budget = reproduced_any && t0.elapsed() > Duration::from_secs(60);
        let again = if over_budget { vec![v.sig.clone()] } else { recheck(&v.case) };
        if over_budget {
            v.desc = format!("{} [reported as recorded: the 60 s re-execution budget was used up by the cases before it]", v.desc);
        }
        if !again.iter().any(|s| s == &v.sig) {
            // not believed; a machinery error unless other violations of this run do reproduce (then: a note)
            not_reproduced.push(format!("sig={} did not reproduce on re-execution (got {:?}); case={}", v.sig, again, v.case.to_string().chars().take(600).collect::<String>()));
            continue;
        }
        if let Some(d) = known.lookup(meta.prop, &v.sig) {
            println!("KNOWN-FINDING: property={} sig={} {}", meta.prop, v.sig, d);
            known_hits.push(v.sig.clone());
            reproduced_any = true;
            continue;
        }
        let _ = std::fs::create_dir_all(&dir);
        let path = format!("{}/{}.json", dir, sanitize(&v.sig));
        let body = json!({
            "property": meta.prop,
            "sig": v.sig,
            "description": v.desc,
            "case": v.case,
            "replay": format!("bin/check {} --replay {}", meta.prop, path),
        });
        std::fs::write(&path, serde_json::to_string_pretty(&body).unwrap()).expect("write replay");
        println!("VIOLATION property={} replay={}", meta.prop, path);
        println!("  sig={}  {}", v.sig, v.desc);
        reported.push(v.sig.clone());
        reproduced_any = true;
        exit = 1;
    }
    if !not_reproduced.is_empty() {
        if reported.is_empty() && known_hits.is_empty() {
            for n in &not_reproduced {
                eprintln!("MACHINERY-ERROR: violation {}", n);
            }
            return 2;
        }
        for n in &not_reproduced {
            acc.notes.push(format!("not reported (not believed): violation {}", n));
        }
    }
    if acc.outcomes.len() >= OUTCOME_CAP {
        acc.notes.push(format!("distinct-outcome counting stopped at {} entries (the reported distinct counts are lower bounds; does not affect exhaustiveness)", OUTCOME_CAP));
    }
    acc.samples.truncate(6);
    if acc.samples.is_empty() {
        acc.samples.push(json!("(no sample recorded)"));
    }
    let mut coverage = json!({
        "states": acc.states,
        "transitions": acc.transitions,
        "traces_validated_against_impl": acc.observations,
        "evaluations": acc.states.max(1),
        "distinct_outcomes": acc.outcomes.len(),
        "distinct_nontrivial": acc.nontrivial.len(),
        "rule": meta.rule,
        "samples": acc.samples,
        "exhaustive": !capped,
        "bounds": meta.bounds,
        "counters": acc.counters,
        "trusted_base": meta.trusted_base,
        "violating_observations": acc.violation_count,
        "violation_signatures": reported,
        "known_finding_signatures": known_hits,
        "threads": nthreads(),
    });
    if !acc.notes.is_empty() {
        coverage["caps_and_notes"] = json!(acc.notes);
    }
    let ev = json!({
        "property_id": meta.prop,
        "tier": meta.tier.name(),
        "seed": verif_seed() as i64,
        "level": meta.level,
        "coverage": coverage,
        "assumptions": meta.assumptions,
        "wall_s": (budget.elapsed() * 1000.0).round() / 1000.0,
        "violations": reported_len(&coverage),
    });
    let evdir = format!("{}/evidence", verif_dir());
    let _ = std::fs::create_dir_all(&evdir);
    std::fs::write(format!("{}/{}.json", evdir, meta.prop), serde_json::to_string_pretty(&ev).unwrap() + "\n")
        .expect("write evidence");
    println!(
        "{} {}: states={} transitions={} observations={} distinct_outcomes={} nontrivial={} exhaustive={} wall={:.1}s exit={}",
        meta.prop,
        meta.tier.name(),
        acc.states,
        acc.transitions,
        acc.observations,
        acc.outcomes.len(),
        acc.nontrivial.len(),
        !capped,
        budget.elapsed(),
        exit
    );
    for n in &acc.notes {
        println!("  note: {}", n);
    }
    exit
}

fn reported_len(cov: &Value) -> i64 {
    cov["violation_signatures"].as_array().map(|a| a.len() as i64).unwrap_or(0)
}

/// 8-aligned copy of a byte buffer (ProguardCache::parse pads relative to the memory address).
pub struct Aligned {
    words: Vec<u64>,
    len: usize,
}
impl Aligned {
    pub fn new(bytes: &[u8]) -> Aligned {
        let mut words = vec![0u64; bytes.len() / 8 + 1];
        // SAFETY: plain byte copy into a u64 buffer that is at least as long
        unsafe {
            std::ptr::copy_nonoverlapping(bytes.as_ptr(), words.as_mut_ptr() as *mut u8, bytes.len());
        }
        Aligned { words, len: bytes.len() }
    }
    pub fn set(&mut self, bytes: &[u8]) {
        let need = bytes.len() / 8 + 1;
        if self.words.len() < need {
            self.words.resize(need, 0);
        }
        unsafe {
            std::ptr::copy_nonoverlapping(bytes.as_ptr(), self.words.as_mut_ptr() as *mut u8, bytes.len());
        }
        self.len = bytes.len();
    }
    pub fn as_slice(&self) -> &[u8] {
        unsafe { std::slice::from_raw_parts(self.words.as_ptr() as *const u8, self.len) }
    }
    pub fn as_mut_slice(&mut self) -> &mut [u8] {
        unsafe { std::slice::from_raw_parts_mut(self.words.as_mut_ptr() as *mut u8, self.len) }
    }
    pub fn prefix(&self, n: usize) -> &[u8] {
        &self.as_slice()[..n]
    }
}
