//! pgmc — bounded-exhaustive explorer for the 20 rust-proguard properties (see /verif/DESIGN.md).
//!
//!   pgmc check <ID> <quick|thorough>      run the check, write evidence, exit 0/1/2
//!   pgmc replay <ID> <file>               re-run one recorded case without the explorer
#[allow(dead_code)]
mod ast;
mod dec;
mod e1;
mod families;
mod fw;
mod iterp;
mod model;
mod props;
mod q;
mod sha1;
mod subj;
mod wp;

#[global_allocator]
static GLOBAL: wp::ArenaAlloc = wp::ArenaAlloc;

use fw::Tier;

fn main() {
    let args: Vec<String> = std::env::args().collect();
    if args.len() < 3 {
        eprintln!("usage: pgmc check <ID> <quick|thorough> | pgmc replay <ID> <file>");
        std::process::exit(2);
    }
    // Supervise: the real work runs in a child process so that an abort / stack overflow in the
    // subject is reported as what it is instead of killing the reporter.
    if std::env::var_os("PGMC_CHILD").is_none() && std::env::var_os("PGMC_NO_FORK").is_none() {
        let exe = std::env::current_exe().expect("current_exe");
        let journal = format!("{}/target/journal-{}-{}.jsonl", fw::verif_dir(), args.get(2).map(|s| s.as_str()).unwrap_or("x"), std::process::id());
        let _ = std::fs::remove_file(&journal);
        let is_check = args[1] == "check";
        let mut cmd = std::process::Command::new(&exe);
        cmd.args(&args[1..]).env("PGMC_CHILD", "1");
        if is_check {
            cmd.env("PGMC_JOURNAL", &journal).env("PGMC_PROP", &args[2]);
        }
        let mut child = cmd.spawn().expect("spawn child");
        // the checker did not finish: report what it had found (re-executed) instead of nothing
        let recover = |why: String| -> ! {
            let have = is_check && std::fs::metadata(&journal).map(|m| m.len() > 0).unwrap_or(false);
            if !have {
                let _ = std::fs::remove_file(&journal);
                eprintln!("MACHINERY-ERROR: {}; no verdict", why);
                std::process::exit(2);
            }
            eprintln!("note: {}", why);
            let st = std::process::Command::new(&exe).args(["journal", &args[2], &journal]).env("PGMC_CHILD", "1").status();
            let _ = std::fs::remove_file(&journal);
            std::process::exit(st.ok().and_then(|s| s.code()).unwrap_or(2));
        };
        // hard stop: the engines cap themselves (50 s quick / 14 min thorough); a child that is still
        // running long after that is hung (e.g. a subject loop that does not terminate)
        let thorough = args.iter().any(|a| a == "thorough") || std::env::var("VERIF_TIER").map(|v| v == "thorough").unwrap_or(false);
        let cap = std::env::var("PGMC_CAP_S").ok().and_then(|s| s.parse::<u64>().ok()).unwrap_or(if thorough { 14 * 60 } else { 50 });
        let deadline = std::time::Instant::now() + std::time::Duration::from_secs(cap * 2 + 120);
        let status = loop {
            match child.try_wait().expect("wait") {
                Some(st) => break st,
                None => {
                    if std::time::Instant::now() > deadline {
                        let _ = child.kill();
                        let _ = child.wait();
                        recover(format!("the checker did not finish within {} s and was killed (a subject call that does not terminate?)", cap * 2 + 120));
                    }
                    std::thread::sleep(std::time::Duration::from_millis(50));
                }
            }
        };
        match status.code() {
            Some(c) => {
                let _ = std::fs::remove_file(&journal);
                std::process::exit(c)
            }
            None => {
                // Killed by a signal. SIGABRT / SIGSEGV / SIGBUS / SIGILL / SIGFPE in a check run: the subject brought the
                // process down (an abort from a violated unsafe precondition, a stack overflow, ...) while the check was
                // exercising the property's operations. First report what had been journalled; when nothing of that is
                // reportable, run the check a second time: a death that repeats is reported as a violation of its own
                // (the check never dies on a tree where it used to complete - it is deterministic), a death that does
                // not repeat ends as a machinery error as before.
                use std::os::unix::process::ExitStatusExt;
                let sig = status.signal().unwrap_or(0);
                let crash = is_check && [4, 6, 7, 8, 11].contains(&sig);
                if !crash {
                    recover(format!("the checker process was killed by a signal ({:?})", status));
                }
                let have = std::fs::metadata(&journal).map(|m| m.len() > 0).unwrap_or(false);
                if have {
                    eprintln!("note: the checker process was killed by signal {}", sig);
                    let st = std::process::Command::new(&exe).args(["journal", &args[2], &journal]).env("PGMC_CHILD", "1").status();
                    let _ = std::fs::remove_file(&journal);
                    if st.ok().and_then(|s| s.code()) == Some(1) {
                        std::process::exit(1);
                    }
                }
                eprintln!("note: the checker process was killed by signal {}; running the check a second time to see whether that repeats", sig);
                let st2 = std::process::Command::new(&exe).args(&args[1..]).env("PGMC_CHILD", "1").stdout(std::process::Stdio::null()).stderr(std::process::Stdio::null()).status();
                match st2 {
                    Ok(s2) if s2.signal() == Some(sig) => std::process::exit(fw::report_process_killed(&args[2], sig, thorough)),
                    other => {
                        eprintln!("MACHINERY-ERROR: the checker process was killed by signal {} once, the second run ended with {:?}; no verdict", sig, other);
                        std::process::exit(2);
                    }
                }
            }
        }
    }
    fw::install_panic_hook();
    let code = match args[1].as_str() {
        "check" => {
            let tier = match args.get(3).map(|s| s.as_str()).or(std::env::var("VERIF_TIER").ok().as_deref().map(|_| "")).unwrap_or("quick") {
                "thorough" => Tier::Thorough,
                _ => match std::env::var("VERIF_TIER").ok().as_deref() {
                    Some("thorough") if args.get(3).is_none() => Tier::Thorough,
                    _ => Tier::Quick,
                },
            };
            props::run(&args[2], tier)
        }
        "journal" => fw::journal_report(&args[2], args.get(3).map(|s| s.as_str()).unwrap_or(""), &|c| props::recheck(&args[2], c)),
        "replay" => props::replay(&args[2], args.get(3).map(|s| s.as_str()).unwrap_or("")),
        other => {
            // internal sub-commands (workers of multi-process engines)
            props::internal(other, &args[2..])
        }
    };
    std::process::exit(code);
}
