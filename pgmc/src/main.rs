//! pgmc — bounded-exhaustive explorer for the 20 rust-proguard properties (see /verif/DESIGN.md).
//!
//!   pgmc check <ID> <quick|thorough>      run the check, write evidence, exit 0/1/2
//!   pgmc replay <ID> <file>               re-run one recorded case without the explorer
#[allow(dead_code)]
mod ast;
mod dec;
mod e1;
mod families;
mod fw;
mod model;
mod props;
mod q;
mod sha1;
mod subj;

use fw::Tier;

fn main() {
    let args: Vec<String> = std::env::args().collect();
    if args.len() < 3 {
        eprintln!("usage: pgmc check <ID> <quick|thorough> | pgmc replay <ID> <file>");
        std::process::exit(2);
    }
    // Supervise: the real work runs in a child process so that an abort / stack overflow in the
    // subject is reported as what it is instead of killing the reporter.
    if std::env::var_os("PGMC_CHILD").is_none() && std::env::var_os("PGMC_NO_FORK").is_none() {
        let exe = std::env::current_exe().expect("current_exe");
        let mut child = std::process::Command::new(exe).args(&args[1..]).env("PGMC_CHILD", "1").spawn().expect("spawn child");
        // hard stop: the engines cap themselves (50 s quick / 14 min thorough); a child that is still
        // running long after that is hung (e.g. a subject loop that does not terminate)
        let thorough = args.iter().any(|a| a == "thorough") || std::env::var("VERIF_TIER").map(|v| v == "thorough").unwrap_or(false);
        let cap = std::env::var("PGMC_CAP_S").ok().and_then(|s| s.parse::<u64>().ok()).unwrap_or(if thorough { 14 * 60 } else { 50 });
        let deadline = std::time::Instant::now() + std::time::Duration::from_secs(cap * 2 + 120);
        let status = loop {
            match child.try_wait().expect("wait") {
                Some(st) => break st,
                None => {
                    if std::time::Instant::now() > deadline {
                        let _ = child.kill();
                        let _ = child.wait();
                        eprintln!("MACHINERY-ERROR: the checker did not finish within {} s and was killed (a subject call that does not terminate?); no verdict", cap * 2 + 120);
                        std::process::exit(2);
                    }
                    std::thread::sleep(std::time::Duration::from_millis(50));
                }
            }
        };
        match status.code() {
            Some(c) => std::process::exit(c),
            None => {
                eprintln!("MACHINERY-ERROR: the checker process was killed by a signal ({:?}); no verdict", status);
                std::process::exit(2);
            }
        }
    }
    fw::install_panic_hook();
    let code = match args[1].as_str() {
        "check" => {
            let tier = match args.get(3).map(|s| s.as_str()).or(std::env::var("VERIF_TIER").ok().as_deref().map(|_| "")).unwrap_or("quick") {
                "thorough" => Tier::Thorough,
                _ => match std::env::var("VERIF_TIER").ok().as_deref() {
                    Some("thorough") if args.get(3).is_none() => Tier::Thorough,
                    _ => Tier::Quick,
                },
            };
            props::run(&args[2], tier)
        }
        "replay" => props::replay(&args[2], args.get(3).map(|s| s.as_str()).unwrap_or("")),
        other => {
            // internal sub-commands (workers of multi-process engines)
            props::internal(other, &args[2..])
        }
    };
    std::process::exit(code);
}
