//! C01, C03, C04: model-based oracles on the map space (engine E1).
use crate::ast::*;
use crate::e1::*;
use crate::fw::*;
use serde_json::{json, Value};

fn prop_of(id: &str) -> Prop {
    match id {
        "C01" => Prop::C01,
        "C03" => Prop::C03,
        _ => Prop::C04,
    }
}

fn spaces(id: &str, tier: Tier) -> Vec<Box<dyn Space>> {
    let t = tier.thorough();
    let mut v: Vec<Box<dyn Space>> = Vec::new();
    match id {
        "C01" => {
            v.push(Box::new(ms_a(2, true)));
            v.push(Box::new(ms_a_wide(2)));
            v.push(Box::new(ms_a_large(1)));
            v.push(Box::new(ms_b(if t { 4 } else { 3 }, true)));
            v.push(Box::new(ms_c()));
            v.push(Box::new(ms_e(if t { 2 } else { 1 })));
            if t {
                v.push(Box::new(ms_a(3, false)));
                v.push(Box::new(ms_b(5, false)));
            }
        }
        "C03" => {
            v.push(Box::new(ms_b(5, false)));
            v.push(Box::new(ms_b(if t { 5 } else { 4 }, true)));
            v.push(Box::new(ms_d(t)));
            v.push(Box::new(ms_a(2, false)));
            if t {
                v.push(Box::new(ms_b(6, false)));
            }
        }
        _ => {
            v.push(Box::new(ms_d(t)));
            v.push(Box::new(ms_b(if t { 5 } else { 4 }, true)));
            v.push(Box::new(ms_a(if t { 2 } else { 1 }, true)));
        }
    }
    v
}

pub fn run(id: &str, tier: Tier) -> i32 {
    let id: &'static str = match id {
        "C01" => "C01",
        "C03" => "C03",
        _ => "C04",
    };
    let prop = prop_of(id);
    let budget = Budget::new(if tier.thorough() { 14 * 60 } else { 50 });
    let spaces = spaces(id, tier);
    let mut items: Vec<(usize, usize)> = Vec::new();
    for (si, s) in spaces.iter().enumerate() {
        for it in 0..s.n_items() {
            items.push((si, it));
        }
    }
    let acc = par_run(&items, &budget, |&(si, it), acc, budget| {
        let sp = &spaces[si];
        let mut ctx = Ctx::new();
        let mut last_len = 0usize;
        sp.run_item(it, budget, &mut |lines, term| {
            // transitions: one line-append per newly pushed line relative to the previous state
            acc.transitions += if lines.len() > last_len { (lines.len() - last_len) as u64 } else { 1 };
            last_len = lines.len();
            visit_model(prop, lines, term, sp.wide(), &mut ctx, acc);
            acc.count(&format!("states[{}]", sp.name()), 1);
        });
    });
    let mut acc = acc;
    acc.transitions += acc.observations;
    let meta = RunMeta {
        prop: id,
        tier,
        level: "model_checking",
        rule: match id {
            "C01" => "states = mapping histories (all line sequences of the listed scopes); in every state the complete line-based query universe Q(M) is issued against mapper, mapper-with-index and cache(written->parsed) and compared with the reference model (R1-R7). distinct = distinct model answers (frame lists); non-trivial = answers with >= 1 frame".into(),
            "C03" => "states = mapping histories; in every state all (class, method, parameter-string) triples of Q(M) are issued against mapper-with-index and cache (must equal model R10+R5) and the mapper without index (must be empty). distinct = distinct model answers; non-trivial = answers with >= 1 frame".into(),
            _ => "states = mapping histories / name tables; in every state every name of Q(M) (names in the file, each +-1 trailing character, empty, unknown) is looked up as class, throwable and (class, method); consistency clause evaluated on the implementation for every line of Q(M). distinct = distinct model answers; non-trivial = Some(..) answers".into(),
        },
        bounds: json!({"scopes": spaces.iter().map(|s| s.describe_short()).collect::<Vec<_>>() }),
        assumptions: vec![
            "reading I1: a sourceFile header affects the entries after it in the same class block".into(),
            "reading I2: 'followed by an entry' means the next parsed record".into(),
            "mapping constants < 2^32-1, non-empty names (the property's stated domain)".into(),
        ],
        trusted_base: vec!["rustc/std".into(), "reference model pgmc/src/model.rs (evaluated on the generating AST; contains no parser)".into(), "AST printer pgmc/src/ast.rs".into()],
    };
    finish(meta, acc, &budget, &|case| recheck(id, case))
}

pub fn recheck(id: &str, case: &Value) -> Vec<String> {
    let (lines, term) = file_from_json(case);
    let wide = case["wide"].as_bool().unwrap_or(false);
    let mut acc = Acc::new();
    let mut ctx = Ctx::new();
    visit_model(prop_of(id), &lines, term, wide, &mut ctx, &mut acc);
    acc.violations.keys().cloned().collect()
}

trait DescribeShort {
    fn describe_short(&self) -> Value;
}
impl DescribeShort for Box<dyn Space> {
    fn describe_short(&self) -> Value {
        let mut d = self.describe();
        // keep the evidence readable: alphabets of > 40 lines are summarised by their first entries
        if let Some(a) = d.get("alphabet").and_then(|a| a.as_array()).cloned() {
            if a.len() > 40 {
                let mut head: Vec<Value> = a.iter().take(12).cloned().collect();
                head.push(json!(format!("... {} more", a.len() - 12)));
                d["alphabet"] = json!(head);
            }
        }
        d
    }
}
