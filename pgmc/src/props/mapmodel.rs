//! C01, C03, C04: model-based oracles on the map space (engine E1).
use crate::ast::*;
use crate::e1::*;
use crate::families::*;
use crate::fw::*;
use crate::model::Model;
use crate::props::c02::corpus_files;
use crate::q::Universe;
use crate::subj::{cur, Subj};
use serde_json::{json, Value};

/// MS-F: the AST of a corpus file is taken from the implementation's own record iterator (trusted only as far
/// as C05/C06 check it); error items become noise lines.
fn corpus_ast(bytes: &'static [u8]) -> Vec<Line> {
    let mut v = Vec::new();
    for r in cur::ProguardMapping::new(bytes).iter() {
        v.push(match r {
            Ok(cur::ProguardRecord::Class { original, obfuscated }) => Line::Class { orig: original, obf: obfuscated },
            Ok(cur::ProguardRecord::Header { key, value }) => Line::Header { key, value },
            Ok(cur::ProguardRecord::Field { ty, original, obfuscated }) => Line::Field { ty, orig: original, obf: obfuscated },
            Ok(cur::ProguardRecord::Method { ty, original, obfuscated, arguments, original_class, line_mapping }) => {
                let (range, orig) = match line_mapping {
                    None => (None, Orig::None),
                    Some(lm) => (
                        Some((lm.startline as u64, lm.endline as u64)),
                        match (lm.original_startline, lm.original_endline) {
                            (None, _) => Orig::None,
                            (Some(a), None) => Orig::S(a as u64),
                            (Some(a), Some(b)) => Orig::SE(a as u64, b as u64),
                        },
                    ),
                };
                Line::Method { range, ty, cls: original_class, name: original, args: arguments, orig, obf: obfuscated }
            }
            Err(_) => Line::Noise(b"<error item>"),
        });
    }
    v
}

struct CorpusFile {
    name: String,
    bytes: &'static [u8],
    lines: Vec<Line>,
    model: Model,
    /// (start, end) line ranges of the class blocks
    blocks: Vec<(usize, usize)>,
}

fn load_corpus() -> Vec<CorpusFile> {
    let mut v = Vec::new();
    for (name, b) in corpus_files() {
        let bytes: &'static [u8] = leak_bytes(&b);
        let lines = corpus_ast(bytes);
        let model = Model::fold_indexed(&lines);
        let mut blocks = Vec::new();
        let mut start: Option<usize> = None;
        for (i, l) in lines.iter().enumerate() {
            if matches!(l, Line::Class { .. }) {
                if let Some(s) = start {
                    blocks.push((s, i));
                }
                start = Some(i);
            }
        }
        if let Some(s) = start {
            blocks.push((s, lines.len()));
        }
        v.push(CorpusFile { name, bytes, lines, model, blocks });
    }
    v
}

/// every class block of a corpus file: local universe (the block's names and constants) against the whole file's subjects
fn visit_corpus(prop: Prop, cf: &CorpusFile, shard: usize, nshards: usize, acc: &mut Acc, budget: &Budget) {
    let mut ab = Aligned::new(&[]);
    let r = guarded(|| {
        cur::with_subjects(cf.bytes, &mut ab, |m, mp, c, _| {
            let subjects: [&dyn Subj; 3] = [m, mp, c];
            for (bi, (s, e)) in cf.blocks.iter().enumerate() {
                if bi % nshards != shard {
                    continue;
                }
                if budget.exceeded() {
                    acc.notes.push(format!("wall-clock cap hit inside corpus file {}", cf.name));
                    return;
                }
                let block_lines = &cf.lines[*s..*e];
                let mut uni = Universe::from_ast(block_lines, false);
                // corpus constants are large: query each constant +-1 and a few fixed lines instead of 0..=max
                let mut lines: Vec<usize> = vec![0, 1, usize::MAX];
                for l in block_lines {
                    if let Line::Method { range: Some((a, b)), .. } = l {
                        for d in [a.saturating_sub(1), *a, a + 1, b.saturating_sub(1), *b, b + 1, (a + b) / 2] {
                            if !lines.contains(&(d as usize)) {
                                lines.push(d as usize);
                            }
                        }
                    }
                }
                uni.lines = lines;
                acc.states += 1;
                acc.count("states[MS-F corpus class blocks]", 1);
                let case = |q: Value, exp: Value, got: Value| json!({"kind":"corpus","file":cf.name,"block":bi,"oracle":prop.id(),"query":q,"expected":exp,"observed":got});
                run_oracle(prop, &cf.model, &uni, &subjects, acc, cf.bytes.len(), &case);
            }
        })
    });
    match r {
        Ok(Ok(())) => {}
        Ok(Err(e)) => acc.violation("pipeline:corpus", cf.bytes.len(), || (format!("{}: {}", cf.name, e), json!({"kind":"corpus","file":cf.name}))),
        Err(p) => acc.violation(format!("panic:{}", panic_site(&p)), cf.bytes.len(), || (format!("{}: {}", cf.name, p), json!({"kind":"corpus","file":cf.name}))),
    }
}

fn prop_of(id: &str) -> Prop {
    match id {
        "C01" => Prop::C01,
        "C03" => Prop::C03,
        _ => Prop::C04,
    }
}

fn spaces(id: &str, tier: Tier) -> Vec<Box<dyn Space>> {
    let t = tier.thorough();
    let mut v: Vec<Box<dyn Space>> = Vec::new();
    match id {
        "C01" => {
            v.push(Box::new(ms_a(2, true)));
            v.push(Box::new(ms_a_wide(2)));
            v.push(Box::new(ms_a_large(1)));
            v.push(Box::new(ms_b(if t { 4 } else { 3 }, true)));
            v.push(Box::new(ms_c()));
            v.push(Box::new(ms_e(if t { 2 } else { 1 })));
            v.push(Box::new(ms_e_runs(if t { 2 } else { 1 })));
            v.push(Box::new(scale_family(true)));
            v.push(Box::new(sorted_run_family()));
            v.push(Box::new(r8_metadata_family()));
            v.push(Box::new(late_member_family()));
            v.push(Box::new(file_header_family()));
            v.push(Box::new(unicode_family()));
            if t {
                v.push(Box::new(ms_a_depth3()));
                v.push(Box::new(ms_b(5, false)));
            }
        }
        "C03" => {
            v.push(Box::new(ms_b(5, false)));
            v.push(Box::new(ms_b(if t { 5 } else { 4 }, true)));
            v.push(Box::new(ms_d(t)));
            v.push(Box::new(ms_a(2, false)));
            v.push(Box::new(scale_family(false)));
            v.push(Box::new(relation_family()));
            v.push(Box::new(unicode_family()));
            v.push(Box::new(late_member_family()));
            // argument strings that are class names of the mapping (obfuscated names of other blocks, originals, arrays)
            {
                let mut alpha = Vec::new();
                for a in ["a.a", "b.c", "x.Foo", "a.a[]", "int"] {
                    for n in ["p", "q"] {
                        alpha.push(method(None, None, n, a, Orig::None, "x"));
                    }
                }
                v.push(Box::new(SeqSpace::new("by-params: arguments that are class names of the mapping", vec![class("a.a", "b.c"), class("x.Foo", "a.a")], alpha, 3)));
            }
            // noise lines (incl. R8's indented member comments) inside inline groups: "followed by" looks through them
            v.push(Box::new(ms_e(if t { 2 } else { 1 })));
            v.push(Box::new(r8_metadata_family()));
            // obfuscated ranges that are equal only modulo 2^32: distinct ranges, no inline group
            {
                let big = 1u64 << 32;
                let mut alpha = Vec::new();
                for r in [(1u64, 1u64), (big + 1, big + 1), (1, big + 1), (big + 1, 2 * big + 1), (2, 2)] {
                    for n in ["p", "q"] {
                        alpha.push(method(Some(r), None, n, "", Orig::None, "m"));
                    }
                }
                v.push(Box::new(SeqSpace::new("by-params: ranges congruent modulo 2^32", vec![class("p.A", "a")], alpha, 3)));
            }
            if t {
                v.push(Box::new(ms_b(6, false)));
            }
        }
        _ => {
            v.push(Box::new(ms_d(t)));
            v.push(Box::new(ms_b(if t { 5 } else { 4 }, true)));
            v.push(Box::new(ms_a(if t { 2 } else { 1 }, true)));
            v.push(Box::new(scale_family(true)));
            v.push(Box::new(unicode_family()));
            v.push(Box::new(relation_family()));
            v.push(Box::new(collision_family()));
            v.push(Box::new(giant_family()));
        }
    }
    v
}

pub fn run(id: &str, tier: Tier) -> i32 {
    let id: &'static str = match id {
        "C01" => "C01",
        "C03" => "C03",
        _ => "C04",
    };
    let prop = prop_of(id);
    let budget = Budget::new(if tier.thorough() { 14 * 60 } else { 50 });
    let spaces = spaces(id, tier);
    let mut items: Vec<(usize, usize)> = Vec::new();
    for (si, s) in spaces.iter().enumerate() {
        for it in 0..s.n_items() {
            items.push((si, it));
        }
    }
    // MS-F corpus: work items (usize::MAX - file index, shard)
    let corpus = load_corpus();
    let cshards = 48;
    for ci in 0..corpus.len() {
        for sh in 0..cshards {
            items.push((usize::MAX - ci, sh));
        }
    }
    let acc = par_run(&items, &budget, |&(si, it), acc, budget| {
        if si > spaces.len() {
            visit_corpus(prop, &corpus[usize::MAX - si], it, cshards, acc, budget);
            return;
        }
        let sp = &spaces[si];
        let mut ctx = Ctx::new();
        let mut last_len = 0usize;
        sp.run_item(it, budget, &mut |lines, term| {
            // transitions: one line-append per newly pushed line relative to the previous state
            acc.transitions += if lines.len() > last_len { (lines.len() - last_len) as u64 } else { 1 };
            last_len = lines.len();
            visit_model(prop, lines, term, sp.wide(), &mut ctx, acc);
            acc.count(&format!("states[{}]", sp.name()), 1);
        });
    });
    let mut acc = acc;
    acc.transitions += acc.observations;
    if id == "C04" {
        // handle-history pass: handles parsed from recycled memory (props/hist.rs)
        let mut h = Acc::new();
        super::hist::reuse_history(&mut h);
        acc.merge(h);
    }
    let meta = RunMeta {
        prop: id,
        tier,
        level: "model_checking",
        rule: match id {
            "C01" => "states = mapping histories (all line sequences of the listed scopes); in every state the complete line-based query universe Q(M) is issued against mapper, mapper-with-index and cache(written->parsed) and compared with the reference model (R1-R7); for every distinct non-empty answer of a state the frame iterator is also consumed through nth(k) for every k, skip, step_by, last, count, size_hint and after partial consumption, and must show the sequence of repeated next() (iterator protocol, pgmc/src/iterp.rs). Mappers are built through new()/new_with_param_mapping() for one half of the states and through the From<&str> / From<(&str, bool)> conversions for the other half (a fixed function of the bytes). distinct = distinct model answers (frame lists); non-trivial = answers with >= 1 frame".into(),
            "C03" => "states = mapping histories; in every state all (class, method, parameter-string) triples of Q(M) are issued against mapper-with-index and cache (must equal model R10+R5) and the mapper without index (outside the statement: must be empty or equal to the model); iterator protocol as in C01 for every distinct non-empty answer. distinct = distinct model answers; non-trivial = answers with >= 1 frame".into(),
            _ => "handle-history pass: for every ordered pair of 7 small mappings, every last query on the first handle and every first query on the second (28 queries: class / method / frame by line / frame by parameters / throwable / signature / text trace x 4 class names), a cache (and a mapper) is created, queried and dropped and the second one is created in the same memory (same address) - the first and the repeated query must be answered from the new contents. states = mapping histories / name tables; in every state every name of Q(M) (names in the file, each +-1 trailing character, empty, unknown) is looked up as class, throwable and (class, method); consistency clause evaluated on the implementation for every line of Q(M). distinct = distinct model answers; non-trivial = Some(..) answers".into(),
        },
        bounds: json!({"scopes": spaces.iter().map(|s| s.describe_short()).collect::<Vec<_>>(), "corpus": corpus.iter().map(|c| json!({"file": c.name, "class_blocks": c.blocks.len(), "queries": "per class block: the block's names (+ near misses) x every range boundary +-1, midpoints, 0, 1, 2^64-1"})).collect::<Vec<_>>() }),
        assumptions: vec![
            "reading I1: a sourceFile header affects the entries after it in the same class block".into(),
            "reading I2: 'followed by an entry' means the next parsed record".into(),
            "mapping constants < 2^32-1, non-empty names (the property's stated domain)".into(),
        ],
        trusted_base: vec!["rustc/std".into(), "reference model pgmc/src/model.rs (evaluated on the generating AST; contains no parser)".into(), "AST printer pgmc/src/ast.rs".into()],
    };
    finish(meta, acc, &budget, &|case| recheck(id, case))
}

pub fn recheck(id: &str, case: &Value) -> Vec<String> {
    if case["kind"] == "reuse-history" {
        return super::hist::recheck(case);
    }
    if case["kind"] == "corpus" {
        let mut acc = Acc::new();
        let b = Budget::new(3600);
        for cf in load_corpus() {
            if Some(cf.name.as_str()) == case["file"].as_str() {
                let n = cf.blocks.len().max(1);
                match case["block"].as_u64() {
                    Some(bi) => visit_corpus(prop_of(id), &cf, bi as usize % n, n, &mut acc, &b),
                    None => visit_corpus(prop_of(id), &cf, 0, 1, &mut acc, &b),
                }
            }
        }
        return acc.violations.keys().cloned().collect();
    }
    let (lines, term) = file_from_json(case);
    let wide = case["wide"].as_bool().unwrap_or(false);
    let mut acc = Acc::new();
    let mut ctx = Ctx::new();
    visit_model(prop_of(id), &lines, term, wide, &mut ctx, &mut acc);
    acc.violations.keys().cloned().collect()
}

trait DescribeShort {
    fn describe_short(&self) -> Value;
}
impl DescribeShort for Box<dyn Space> {
    fn describe_short(&self) -> Value {
        let mut d = self.describe();
        // keep the evidence readable: alphabets of > 40 lines are summarised by their first entries
        if let Some(a) = d.get("alphabet").and_then(|a| a.as_array()).cloned() {
            if a.len() > 40 {
                let mut head: Vec<Value> = a.iter().take(12).cloned().collect();
                head.push(json!(format!("... {} more", a.len() - 12)));
                d["alphabet"] = json!(head);
            }
        }
        d
    }
}
