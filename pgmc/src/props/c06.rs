//! C06: parsing is total and a bad line never affects the lines after it.
//! Bounded-exhaustive over byte strings / token strings / (A, B) pairs / corpus line splits.
use crate::fw::*;
use crate::props::c02::corpus_files;
use crate::subj::cur::{ProguardMapping, ProguardRecord};
use serde_json::{json, Value};

pub const SYMS: [u8; 9] = [b'\n', b'\r', b' ', b'a', b':', b'#', b'1', b'-', b'>'];

pub const TOKENS: [&[u8]; 19] = [
    b"\xef\xbb\xbf",
    b"\\",
    b" ",
    b"    ",
    b" -> ",
    b":",
    b"a",
    b"1",
    b"\n",
    b"\r",
    b"#",
    b" {\"id\":\"sourceFile\",\"fileName\":\"",
    b"\"}",
    b"(",
    b")",
    b".",
    b"\xff",
    b"\xb2",
    b"123456789012345678901234567890",
];

/// an item of the stream in comparable form: Ok records exactly, Err items by offending line modulo terminator
#[derive(PartialEq, Eq, Debug, Clone, Hash)]
enum Item<'a> {
    Ok(String),
    Err(&'a [u8]),
}

fn trim_term(mut l: &[u8]) -> &[u8] {
    while let Some((&c, rest)) = l.split_last() {
        if c == b'\n' || c == b'\r' {
            l = rest;
        } else {
            break;
        }
    }
    l
}

fn has_nl(s: &str) -> bool {
    s.bytes().any(|b| b == b'\n' || b == b'\r')
}

/// iterate with an explicit horizon; Err(reason) = totality / line-terminator violation
/// every `&str` of the record is valid UTF-8 (checked on its bytes, without touching it as a str)
pub fn rec_utf8_ok(rec: &ProguardRecord<'_>) -> bool {
    let ok = |s: &str| std::str::from_utf8(s.as_bytes()).is_ok();
    match rec {
        ProguardRecord::Header { key, value } => ok(key) && value.map(ok).unwrap_or(true),
        ProguardRecord::Class { original, obfuscated } => ok(original) && ok(obfuscated),
        ProguardRecord::Field { ty, original, obfuscated } => ok(ty) && ok(original) && ok(obfuscated),
        ProguardRecord::Method { ty, original, obfuscated, arguments, original_class, .. } => ok(ty) && ok(original) && ok(obfuscated) && ok(arguments) && original_class.map(ok).unwrap_or(true),
    }
}

fn items(bytes: &[u8]) -> Result<Vec<Item<'_>>, (&'static str, String)> {
    let mut v = Vec::new();
    let cap = bytes.len() + 1;
    for (n, r) in ProguardMapping::new(bytes).iter().enumerate() {
        if n + 1 > cap {
            return Err(("more-items-than-bytes", format!("more than {} items from {} bytes", cap - 1, bytes.len())));
        }
        match r {
            Ok(rec) => {
                let bad = match &rec {
                    ProguardRecord::Header { key, value } => has_nl(key) || value.map(has_nl).unwrap_or(false),
                    ProguardRecord::Class { original, obfuscated } => has_nl(original) || has_nl(obfuscated),
                    ProguardRecord::Field { ty, original, obfuscated } => has_nl(ty) || has_nl(original) || has_nl(obfuscated),
                    ProguardRecord::Method { ty, original, obfuscated, arguments, original_class, .. } => {
                        has_nl(ty) || has_nl(original) || has_nl(obfuscated) || has_nl(arguments) || original_class.map(has_nl).unwrap_or(false)
                    }
                };
                if bad {
                    return Err(("terminator-in-record", format!("a yielded record contains a line terminator: {:?}", rec)));
                }
                if !rec_utf8_ok(&rec) {
                    return Err(("invalid-utf8-in-record", "a yielded record contains a str that is not valid UTF-8 (not printed: formatting it would be undefined behaviour)".to_string()));
                }
                v.push(Item::Ok(format!("{:?}", rec)));
            }
            Err(e) => {
                // the accessor ties the slice to `e`; re-slice the input at the same position instead
                let el = e.line();
                if el.is_empty() {
                    continue; // reading I3 (a zero-length slice has no position)
                }
                let off = (el.as_ptr() as usize).wrapping_sub(bytes.as_ptr() as usize);
                let l: &[u8] = if off <= bytes.len() && off + el.len() <= bytes.len() { &bytes[off..off + el.len()] } else {
                    return Err(("error-line-outside-input", format!("an error item's line is not a slice of the input: {:?}", esc(el))));
                };
                let l = trim_term(l);
                // reading I3: zero-length error items (blank tail after an error line) are not lines
                if !l.is_empty() {
                    v.push(Item::Err(l));
                }
            }
        }
    }
    if v.len() > bytes.len() {
        return Err(("more-items-than-bytes", format!("{} items from {} bytes", v.len(), bytes.len())));
    }
    Ok(v)
}

/// lazy item stream (no allocation) used for the corpus splits
#[derive(PartialEq, Debug)]
enum LItem<'a> {
    Ok(ProguardRecord<'a>),
    Err(Vec<u8>),
}
fn lazy<'a>(bytes: &'a [u8]) -> impl Iterator<Item = LItem<'a>> + 'a {
    ProguardMapping::new(bytes).iter().filter_map(|r| match r {
        Ok(rec) => Some(LItem::Ok(rec)),
        Err(e) => {
            let l = trim_term(e.line());
            if l.is_empty() {
                None
            } else {
                Some(LItem::Err(l.to_vec()))
            }
        }
    })
}

fn case_single(s: &[u8]) -> Value {
    json!({"kind":"bytes","text":esc(s)})
}
fn case_pair(a: &[u8], b: &[u8], j: &[u8]) -> Value {
    json!({"kind":"pair","a":esc(a),"b":esc(b),"joiner":esc(j)})
}

/// the line breaks the parser knows: LF, CR, CRLF
pub const JOINERS: [&[u8]; 3] = [b"\n", b"\r", b"\r\n"];

/// totality + no-terminator on one string
fn check_single(s: &[u8], acc: &mut Acc) -> bool {
    acc.observations += 1;
    match guarded(|| items(s).map(|v| h64(&v))) {
        Ok(Ok(h)) => {
            acc.outcome(h, true);
            true
        }
        Ok(Err((sig, d))) => {
            acc.violation(format!("single:{}", sig), s.len(), || (format!("{} on {:?}", d, esc(s)), case_single(s)));
            false
        }
        Err(p) => {
            acc.violation(format!("panic:{}", panic_site(&p)), s.len(), || (format!("panic {} on {:?}", p, esc(s)), case_single(s)));
            false
        }
    }
}

/// records(A + line break + B) == records(A) ++ records(B)
fn check_pair(a: &[u8], b: &[u8], j: &[u8], joined: &mut Vec<u8>, acc: &mut Acc) {
    joined.clear();
    joined.extend_from_slice(a);
    joined.extend_from_slice(j);
    joined.extend_from_slice(b);
    acc.observations += 1;
    // the joined string must itself satisfy totality / no-terminator
    if let Ok(Err((sig, d))) = guarded(|| items(joined).map(|_| ())) {
        let jb = joined.clone();
        acc.violation(format!("single:{}", sig), jb.len(), || (format!("{} on {:?}", d, esc(&jb)), case_single(&jb)));
        return;
    }
    let r = guarded(|| {
        let (Ok(ia), Ok(ib), Ok(ij)) = (items(a), items(b), items(joined)) else { return None };
        let ok = ij.len() == ia.len() + ib.len() && ij[..ia.len()] == ia[..] && ij[ia.len()..] == ib[..];
        Some((ok, format!("A: {:?}  B: {:?}  A+LF+B: {:?}", ia, ib, ij)))
    });
    match r {
        Ok(Some((true, _))) | Ok(None) => {}
        Ok(Some((false, d))) => acc.violation(format!("resync:records-differ:{}", match j { b"\n" => "LF", b"\r" => "CR", _ => "CRLF" }), a.len() + b.len(), || (format!("records(A+{:?}+B) != records(A)++records(B) for A={:?} B={:?}: {}", esc(j), esc(a), esc(b), d), case_pair(a, b, j))),
        Err(p) => acc.violation(format!("panic:{}", panic_site(&p)), a.len() + b.len(), || (format!("panic {}", p), case_pair(a, b, j))),
    }
}

/// the record iterator's protocol (nth / skip / step_by / last / count / size_hint agree with repeated next()) on
/// every file of <= 4 lines over an 8-line alphabet (incl. two records sharing a physical line, malformed and blank
/// lines) x 4 terminators, with and without the final terminator
const PROTO_LINES: [&str; 8] = ["Foo -> a:", "Foo -> a:Bar -> b:", "    int f -> y", "    1:2:void m():3 -> z", "not a record", "", "# {\"id\":\"sourceFile\",\"fileName\":\"X.kt\"}# c", "# comment"];
pub fn protocol_one(s: &[u8], acc: &mut Acc) {
    acc.states += 1;
    acc.observations += 1;
    match guarded(|| {
        crate::iterp::iter_protocol(&|| ProguardMapping::new(s).iter(), &|r| format!("{:?}", r), s.len() + 2)
            .or_else(|| crate::iterp::iter_clone_protocol(&|| ProguardMapping::new(s).iter(), &|r| format!("{:?}", r), s.len() + 2))
            .or_else(|| {
                // the same through a cloned mapping handle and through section(0..len)
                let m = ProguardMapping::new(s);
                let base: Vec<String> = m.iter().map(|r| format!("{:?}", r)).collect();
                let c: Vec<String> = m.clone().iter().map(|r| format!("{:?}", r)).collect();
                let w: Vec<String> = m.section(0..s.len()).iter().map(|r| format!("{:?}", r)).collect();
                if c != base {
                    Some(format!("a cloned ProguardMapping iterates {:?}, the original {:?}", c, base))
                } else if w != base {
                    Some(format!("section(0..len) iterates {:?}, the mapping itself {:?}", w, base))
                } else {
                    None
                }
            })
    }) {
        Ok(None) => {}
        Ok(Some(d)) => acc.violation("iterator-protocol", s.len(), || (format!("ProguardMapping::iter() on {:?}: {}", esc(s), d), json!({"kind":"protocol","text":esc(s)}))),
        Err(p) => acc.violation(format!("panic:{}", panic_site(&p)), s.len(), || (format!("panic {} (iterator protocol) on {:?}", p, esc(s)), json!({"kind":"protocol","text":esc(s)}))),
    }
}
pub fn protocol_family(acc: &mut Acc) {
    fn rec(buf: &mut Vec<u8>, left: usize, term: &[u8], acc: &mut Acc) {
        protocol_one(buf, acc);
        if buf.ends_with(term) && !buf.is_empty() {
            let n = buf.len() - term.len();
            let cut = buf[..n].to_vec();
            protocol_one(&cut, acc);
        }
        if left == 0 {
            return;
        }
        for l in PROTO_LINES {
            let n = buf.len();
            buf.extend_from_slice(l.as_bytes());
            buf.extend_from_slice(term);
            rec(buf, left - 1, term, acc);
            buf.truncate(n);
        }
    }
    for term in [&b"\n"[..], b"\r\n", b"\n\n", b"\r"] {
        let mut buf = Vec::new();
        rec(&mut buf, 4, term, acc);
    }
    acc.count("record-iterator protocol files", 1);
}

/// sections: the records of `parent.section(a..b)` are the records of a fresh mapping over exactly those bytes - for every
/// a <= b of small texts with multi-byte characters (a section may start or end inside one), with and without
/// iterating the parent first. What a handle learnt about the whole text must not leak into its sections.
pub const SECTION_TEXTS: [&str; 4] = ["\u{e9}.\u{dc} -> \u{e9}:\n    int f -> \u{fc}\n", "a.B -> c:\n    1:2:void \u{e9}(\u{dc}):3 -> m\n# \u{fc}: \u{e9}\n", "\u{65e5}\u{672c} -> \u{8a9e}:\r\n# {\"id\":\"sourceFile\",\"fileName\":\"\u{1F600}.kt\"}\r\n", "A -> a:\n    void m() -> x\n"];
pub fn sections_family(acc: &mut Acc) {
    fn shown(m: &ProguardMapping<'_>, cap: usize) -> Vec<String> {
        m.iter().take(cap).map(|r| match r {
            Ok(rec) if !rec_utf8_ok(&rec) => "Ok(record containing a str that is not valid UTF-8)".to_string(),
            Ok(rec) => format!("{:?}", rec),
            Err(e) => format!("Err({:?})", esc(e.line())),
        }).collect()
    }
    for text in SECTION_TEXTS {
        let s = text.as_bytes();
        for parent_first in [false, true] {
            let r = guarded(|| {
                let parent = ProguardMapping::new(s);
                if parent_first {
                    let _ = parent.iter().count();
                    let _ = (parent.has_line_info(), parent.is_valid());
                }
                for a in 0..=s.len() {
                    for b in a..=s.len() {
                        let got = shown(&parent.section(a..b), s.len() + 2);
                        let exp = shown(&ProguardMapping::new(&s[a..b]), s.len() + 2);
                        if got != exp {
                            return Some((a, b, format!("section({}..{}) of {:?} (parent iterated first: {}) iterates {:?}; a fresh mapping over the same bytes iterates {:?}", a, b, esc(s), parent_first, got, exp)));
                        }
                    }
                }
                None
            });
            acc.states += ((s.len() + 1) * (s.len() + 2) / 2) as u64;
            acc.observations += ((s.len() + 1) * (s.len() + 2) / 2) as u64;
            match r {
                Ok(None) => {}
                Ok(Some((a, b, d))) => acc.violation("section:records-differ-from-fresh-mapping", b - a, || (d.clone(), json!({"kind":"sections"}))),
                Err(p) => acc.violation(format!("panic:{}", panic_site(&p)), 0, || (format!("panic {} (sections of {:?})", p, esc(s)), json!({"kind":"sections"}))),
            }
        }
    }
    acc.count("section(a..b) record comparisons", 1);
}

/// every split of one string at a line break (LF, lone CR, CRLF)
fn check_splits(s: &[u8], joined: &mut Vec<u8>, acc: &mut Acc) {
    for (i, &c) in s.iter().enumerate() {
        if c == b'\n' {
            acc.transitions += 1;
            check_pair(&s[..i], &s[i + 1..], b"\n", joined, acc);
        } else if c == b'\r' {
            acc.transitions += 1;
            if s.get(i + 1) == Some(&b'\n') {
                check_pair(&s[..i], &s[i + 2..], b"\r\n", joined, acc);
            } else {
                check_pair(&s[..i], &s[i + 1..], b"\r", joined, acc);
            }
        }
    }
}

/// "cut family": every well-formed line cut at every byte position, the cut replaced by a line break, with
/// and without delimiter-rich lines around it (a truncated line may only turn itself into an error)
pub const CUT_LINES: [&str; 14] = [
    "# {\"id\":\"sourceFile\",\"fileName\":\"C:\\src\\app\\Main.kt\"}",
    "    1:2:void a\\b(c\\d):3:4 -> e\\f",
    "com.example.Foo -> a.b:",
    "    int count -> c",
    "    java.util.List items -> d",
    "    void <init>() -> <init>",
    "    1:2:void run(int,a.B[]):3:4 -> r",
    "    5:6:ret.T x.Y.inl(java.lang.String):7 -> s",
    "    void q(int) -> t",
    "# compiler: R8",
    "# {\"id\":\"sourceFile\",\"fileName\":\"S.kt\"}",
    "# pg_map_id: 1a2b",
    "\u{e9}.\u{dc} -> \u{fc}:",
    "    8:9:void \u{e9}(\u{dc}) -> \u{fc}",
];

/// long-line family: a malformed / well-formed line of L bytes (around 1 KiB, 64 KiB and 1 MiB) between ordinary
/// lines must still only affect itself
fn long_line_family(joined: &mut Vec<u8>, acc: &mut Acc) {
    let tail: Vec<u8> = CUT_LINES.iter().flat_map(|l| l.bytes().chain(std::iter::once(b'\n'))).collect();
    for l in [1023usize, 1024, 1025, 4096, 65535, 65536, 65537, 1 << 20, (1 << 20) + 16] {
        let bad: Vec<u8> = std::iter::repeat(b'x').take(l).collect(); // no arrow: a malformed class line
        let mut good: Vec<u8> = std::iter::repeat(b'k').take(l).collect();
        good.extend_from_slice(b" -> g:");
        let mut digits: Vec<u8> = b"    ".to_vec();
        digits.extend(std::iter::repeat(b'7').take(l));
        digits.extend_from_slice(b":1:void a() -> b");
        for line in [&bad, &good, &digits] {
            for j in JOINERS {
                let mut a = b"p.Q -> q:\n".to_vec();
                a.extend_from_slice(line);
                acc.states += 1;
                acc.transitions += 1;
                acc.count("long-line family pairs", 1);
                if check_single(&a, acc) {
                    check_pair(&a, &tail, j, joined, acc);
                }
            }
        }
    }
}

/// error-run family: N consecutive malformed lines (N around 100 / 1000 / 10000 / 65536 / 100000) followed by
/// ordinary lines - an iterator that "gives up" after a run of errors would drop what follows; also runs that are
/// interrupted by one good line, and runs at the very start vs after a header
/// what iter() yields is what has_line_info() / summary() are computed from (malformed lines cannot hide records)
fn check_folds(a: &[u8], b: &[u8], joined: &[u8], acc: &mut Acc) {
    acc.observations += 1;
    let jb: &[u8] = joined;
    let r = guarded(|| {
        let m = ProguardMapping::new(jb);
        let (mut li, mut classes, mut methods) = (false, 0usize, 0usize);
        for r in m.iter().flatten() {
            match r {
                ProguardRecord::Class { .. } => classes += 1,
                ProguardRecord::Method { line_mapping, .. } => {
                    methods += 1;
                    li |= line_mapping.is_some();
                }
                _ => {}
            }
        }
        let s = m.summary();
        if m.has_line_info() != li {
            Some(format!("has_line_info() is {} but the record stream {} a method with a line mapping", m.has_line_info(), if li { "contains" } else { "does not contain" }))
        } else if (s.class_count(), s.method_count()) != (classes, methods) {
            Some(format!("summary() counts {} classes / {} methods, the record stream has {} / {}", s.class_count(), s.method_count(), classes, methods))
        } else {
            None
        }
    });
    if let Ok(Some(d)) = r {
        acc.violation("resync:folds-miss-records-behind-malformed-lines", 1, || (format!("A ({} bytes of malformed lines) + LF + B: {}", a.len(), d), case_pair(a, b, b"\n")));
    }
}

fn error_run_family(joined: &mut Vec<u8>, acc: &mut Acc) {
    let tail: Vec<u8> = CUT_LINES.iter().flat_map(|l| l.bytes().chain(std::iter::once(b'\n'))).collect();
    for n in [99usize, 100, 101, 255, 256, 999, 1000, 1001, 4096, 9999, 10000, 10001, 65535, 65536, 100000] {
        for (bad, sep) in [(&b"garbage line"[..], &b"\n"[..]), (b"    1:void broken() -> x", b"\r\n"), (b"\xff\xfe", b"\n")] {
            for lead in [&b""[..], b"# compiler: R8\n"] {
                let mut a: Vec<u8> = lead.to_vec();
                for i in 0..n {
                    a.extend_from_slice(bad);
                    if i + 1 < n {
                        a.extend_from_slice(sep);
                    }
                }
                acc.states += 1;
                acc.transitions += 1;
                acc.count("error-run family pairs", 1);
                if check_single(&a, acc) {
                    check_pair(&a, &tail, b"\n", joined, acc);
                    check_folds(&a, &tail, joined, acc);
                }
            }
        }
    }
}

fn cut_family(joined: &mut Vec<u8>, acc: &mut Acc) {
    let all: Vec<u8> = CUT_LINES.iter().flat_map(|l| l.bytes().chain(std::iter::once(b'\n'))).collect();
    for l in CUT_LINES {
        let lb = l.as_bytes();
        for i in 0..=lb.len() {
            for before in [&b""[..], b"p.Q -> q:\n", &all[..]] {
                for after in [&b""[..], &all[..]] {
                    let mut a = before.to_vec();
                    a.extend_from_slice(&lb[..i]);
                    let mut b = lb[i..].to_vec();
                    b.push(b'\n');
                    b.extend_from_slice(after);
                    for j in JOINERS {
                        acc.states += 1;
                        acc.transitions += 1;
                        if check_single(&a, acc) && check_single(&b, acc) {
                            check_pair(&a, &b, j, joined, acc);
                        }
                        acc.count("cut-family pairs", 1);
                    }
                }
            }
        }
    }
}

fn sym_dfs(s: &mut Vec<u8>, left: usize, joined: &mut Vec<u8>, acc: &mut Acc, budget: &Budget) {
    acc.states += 1;
    acc.transitions += 1;
    if check_single(s, acc) {
        check_splits(s, joined, acc);
    }
    if left == 0 || budget.exceeded() {
        return;
    }
    for c in SYMS {
        s.push(c);
        sym_dfs(s, left - 1, joined, acc, budget);
        s.pop();
    }
}

/// the two other observation points of the property: the same bytes go through `ProguardMapper::new` (both flags) and
/// `ProguardCache::write` (into memory) - neither may panic, whatever the lines contain
fn check_consumers(s: &[u8], acc: &mut Acc) {
    acc.observations += 1;
    let r = guarded(|| {
        let m = ProguardMapping::new(s);
        let a = proguard::ProguardMapper::new(m.clone());
        let b = proguard::ProguardMapper::new_with_param_mapping(m.clone(), true);
        std::hint::black_box((&a, &b));
        let mut out = Vec::new();
        let _ = proguard::ProguardCache::write(&m, &mut out);
        out.len()
    });
    if let Err(p) = r {
        acc.violation(format!("panic:{}", panic_site(&p)), s.len(), || (format!("panic {} while building the mapper / writing the cache from {:?}", p, esc(s)), json!({"kind":"consumers","text":esc(s)})));
    }
}

/// member lines whose four numbers come from the boundary numerals (every combination), through iteration and the consumers
fn numeral_family(acc: &mut Acc) {
    let nums = ["0", "1", "7", "4294967295", "4294967296", "18446744073709551615", "18446744073709551616"];
    for s in nums {
        for e in nums {
            for os in nums {
                for oe in nums {
                    let text = format!("p.A -> a:\n    {}:{}:void m():{}:{} -> x\n    {}:{}:void n() -> x\n", s, e, os, oe, s, e);
                    acc.states += 1;
                    acc.transitions += 1;
                    if check_single(text.as_bytes(), acc) {
                        check_consumers(text.as_bytes(), acc);
                    }
                }
            }
        }
    }
    acc.count("numeral-family mappings (7^4 member lines) through iteration, mapper construction and cache writing", 1);
}

fn tok_dfs(s: &mut Vec<u8>, left: usize, joined: &mut Vec<u8>, acc: &mut Acc, budget: &Budget) {
    acc.states += 1;
    acc.transitions += 1;
    if check_single(s, acc) {
        check_splits(s, joined, acc);
        check_consumers(s, acc);
    }
    if left == 0 || budget.exceeded() {
        return;
    }
    for t in TOKENS {
        let l = s.len();
        s.extend_from_slice(t);
        tok_dfs(s, left - 1, joined, acc, budget);
        s.truncate(l);
    }
}

fn all_token_strings(max: usize) -> Vec<Vec<u8>> {
    let mut out: Vec<Vec<u8>> = vec![vec![]];
    let mut frontier: Vec<Vec<u8>> = vec![vec![]];
    for _ in 0..max {
        let mut next = Vec::new();
        for f in &frontier {
            for t in TOKENS {
                let mut n = f.clone();
                n.extend_from_slice(t);
                next.push(n);
            }
        }
        out.extend(next.iter().cloned());
        frontier = next;
    }
    out
}

enum Work {
    Sym(Vec<u8>, usize),
    Tok(Vec<usize>, usize),
    /// all A with the given first two tokens (|A| <= amax) x all B (|B| <= 2)
    Pairs(usize, usize, usize),
    PairsShort,
    Corpus(usize, usize, usize, usize),
}

pub fn run(tier: Tier) -> i32 {
    let t = tier.thorough();
    let budget = Budget::new(if t { 14 * 60 } else { 50 });
    let sym_depth = 7;
    let tok_depth = if t { 6 } else { 5 };
    let amax = if t { 5 } else { 4 };
    let corpus = corpus_files();
    let bs = all_token_strings(2);
    let mut work = Vec::new();
    work.push(Work::Sym(vec![], 1));
    for a in SYMS {
        for b in SYMS {
            work.push(Work::Sym(vec![a, b], sym_depth));
        }
    }
    work.push(Work::Tok(vec![], 1));
    for a in 0..TOKENS.len() {
        for b in 0..TOKENS.len() {
            work.push(Work::Tok(vec![a, b], tok_depth));
            work.push(Work::Pairs(a, b, amax));
        }
    }
    work.push(Work::PairsShort);
    for (i, (_, b)) in corpus.iter().enumerate() {
        let big = b.len() > 100_000;
        if big && !t {
            // the two large files: every 1024th line boundary in the quick tier (labelled, not exhaustive)
            for sh in 0..16 {
                work.push(Work::Corpus(i, sh, 16, 1024));
            }
        } else if big {
            for sh in 0..64 {
                work.push(Work::Corpus(i, sh, 64, 32));
            }
        } else {
            for sh in 0..8 {
                work.push(Work::Corpus(i, sh, 8, 1));
            }
        }
    }
    let mut acc = par_run(&work, &budget, |w, acc, budget| {
        let mut joined = Vec::new();
        match w {
            Work::Sym(first, depth) => {
                let mut s = first.clone();
                if first.is_empty() {
                    // strings of length 0 and 1
                    sym_dfs(&mut s, 1, &mut joined, acc, budget);
                } else {
                    sym_dfs(&mut s, depth - first.len(), &mut joined, acc, budget);
                }
                acc.count("byte strings over the 9-symbol alphabet", 0);
            }
            Work::Tok(first, depth) => {
                let mut s = Vec::new();
                for &i in first {
                    s.extend_from_slice(TOKENS[i]);
                }
                if first.is_empty() {
                    tok_dfs(&mut s, 1, &mut joined, acc, budget);
                } else {
                    tok_dfs(&mut s, depth - first.len(), &mut joined, acc, budget);
                }
            }
            Work::Pairs(a0, a1, amax) => {
                // A ranges over all token strings of length 2..=amax starting with (a0, a1)
                fn rec(a: &mut Vec<u8>, left: usize, bs: &[Vec<u8>], joined: &mut Vec<u8>, acc: &mut Acc, budget: &Budget, deep_all: bool) {
                    for b in bs {
                        for (ji, j) in JOINERS.iter().enumerate() {
                            // CR / CRLF joins: one token less for A in the deepest layer (quick tier keeps LF complete)
                            if ji > 0 && left == 0 && !deep_all {
                                continue;
                            }
                            acc.states += 1;
                            acc.transitions += 1;
                            check_pair(a, b, j, joined, acc);
                        }
                    }
                    if left == 0 || budget.exceeded() {
                        return;
                    }
                    for t in TOKENS {
                        let l = a.len();
                        a.extend_from_slice(t);
                        rec(a, left - 1, bs, joined, acc, budget, deep_all);
                        a.truncate(l);
                    }
                }
                let mut a = Vec::new();
                a.extend_from_slice(TOKENS[*a0]);
                a.extend_from_slice(TOKENS[*a1]);
                rec(&mut a, amax - 2, &bs, &mut joined, acc, budget, false);
            }
            Work::PairsShort => {
                for a in all_token_strings(1) {
                    for b in &bs {
                        for j in JOINERS {
                            acc.states += 1;
                            acc.transitions += 1;
                            check_pair(&a, b, j, &mut joined, acc);
                        }
                    }
                }
                cut_family(&mut joined, acc);
                protocol_family(acc);
                sections_family(acc);
                numeral_family(acc);
                long_line_family(&mut joined, acc);
                error_run_family(&mut joined, acc);
            }
            Work::Corpus(i, shard, n, stride) => {
                let (name, bytes) = &corpus[*i];
                let mut k = 0usize;
                let full = match guarded(|| lazy(bytes).count()) {
                    Ok(v) if v <= bytes.len() => v,
                    other => {
                        acc.violation("corpus:total", bytes.len(), || (format!("{}: {:?}", name, other), json!({"kind":"corpus","file":name})));
                        return;
                    }
                };
                if *shard == 0 {
                    acc.states += 1;
                    acc.observations += 1;
                    acc.sample(1, || json!({"corpus_file": name, "items": full, "check": "records(S) == records(S[..p]) ++ records(S[p+1..]) at line boundaries p"}));
                }
                for (p, &c) in bytes.iter().enumerate() {
                    if c != b'\n' {
                        continue;
                    }
                    k += 1;
                    if k % stride != 0 || (k / stride) % n != *shard {
                        continue;
                    }
                    if budget.exceeded() {
                        acc.notes.push(format!("wall-clock cap hit inside corpus file {}", name));
                        return;
                    }
                    acc.states += 1;
                    acc.transitions += 1;
                    acc.observations += 1;
                    acc.count(&format!("line-boundary splits [{}]", name.rsplit('/').next().unwrap_or(name)), 1);
                    let r = guarded(|| lazy(bytes).eq(lazy(&bytes[..p]).chain(lazy(&bytes[p + 1..]))));
                    if r != Ok(true) {
                        acc.violation("resync:corpus-split", bytes.len(), || (format!("{}: split at byte {} changes the record stream ({:?})", name, p, r), json!({"kind":"corpus-split","file":name,"at":p})));
                    }
                }
            }
        }
    });
    acc.transitions += 0;
    let meta = RunMeta {
        prop: "C06",
        tier,
        level: "model_checking",
        rule: format!("(every token string and a family of member lines with boundary numerals in all four positions also go through ProguardMapper::new (both flags) and ProguardCache::write, which must not panic; plus: the records of every section(a..b) of four small texts with multi-byte characters, with and without iterating the parent first, must be the records of a fresh mapping over those bytes) inputs enumerated exhaustively: all byte strings of length <= {} over the 9 symbols LF CR SP a : # 1 - >; all strings of <= {} tokens over the 19-token alphabet (UTF-8 byte order mark, backslash, single space, delimiters, sourceFile prefix, '\"}}', invalid UTF-8, Latin-1 'numeric' byte, 30-digit run); every split of each of them at LF / lone CR / CRLF; all pairs (A, B) with A <= {} tokens, B <= 2 tokens joined by LF (and by CR and CRLF with A one token shorter); the cut family (14 well-formed lines cut at every byte, x 3 contexts before x 2 after x 3 line breaks); the long-line family (malformed, well-formed and digit-run lines of 1023..2^20+16 bytes followed by ordinary lines); the error-run family (99..100000 consecutive malformed lines followed by ordinary lines); line-boundary splits of the corpus files; the iterator-protocol family (every file of <= 4 lines over an 8-line alphabet x 4 terminators: nth / skip / step_by / last / count / size_hint and partial consumption must see the items of repeated next(), i.e. skipping k items of A + linebreak + B skips exactly k items). Oracle: iteration ends within len+1 items without panic, no yielded string contains CR/LF, records(A+linebreak+B) = records(A)++records(B) (Ok records exactly, Err items by offending line modulo terminator, zero-length error items ignored). states = strings / pairs / splits; distinct = distinct item streams", sym_depth, tok_depth, amax),
        bounds: json!({"byte_string_length": sym_depth, "token_string_depth": tok_depth, "pairs": {"A_tokens": amax, "B_tokens": 2}, "tokens": TOKENS.iter().map(|t| esc(t)).collect::<Vec<_>>(), "corpus": "small files: every line boundary; the two files > 100 kB: every 1024th (quick) / 32nd (thorough) line boundary - that part is a stride, not exhaustive"}),
        assumptions: vec!["reading I3: a zero-length error item (blank tail after an error line) is not a malformed line".into()],
        trusted_base: vec!["rustc/std".into(), "Debug formatting of ProguardRecord for exact comparison of Ok records".into()],
    };
    finish(meta, acc, &budget, &|c| recheck(c))
}

pub fn recheck(case: &Value) -> Vec<String> {
    let mut acc = Acc::new();
    let mut joined = Vec::new();
    match case["kind"].as_str().unwrap_or("") {
        "protocol" => {
            let s = unesc(case["text"].as_str().unwrap_or(""));
            protocol_one(&s, &mut acc);
        }
        "sections" => sections_family(&mut acc),
        "consumers" => {
            let s = unesc(case["text"].as_str().unwrap_or(""));
            check_consumers(&s, &mut acc);
        }
        "bytes" => {
            let s = unesc(case["text"].as_str().unwrap_or(""));
            if check_single(&s, &mut acc) {
                check_splits(&s, &mut joined, &mut acc);
            }
        }
        "pair" => {
            let a = unesc(case["a"].as_str().unwrap_or(""));
            let b = unesc(case["b"].as_str().unwrap_or(""));
            let j = unesc(case["joiner"].as_str().unwrap_or("\\n"));
            check_single(&a, &mut acc);
            check_single(&b, &mut acc);
            check_pair(&a, &b, &j, &mut joined, &mut acc);
            let jb = joined.clone();
            check_folds(&a, &b, &jb, &mut acc);
        }
        "corpus-split" => {
            if let Ok(bytes) = std::fs::read(case["file"].as_str().unwrap_or("")) {
                let p = case["at"].as_u64().unwrap_or(0) as usize;
                if p < bytes.len() {
                    check_pair(&bytes[..p], &bytes[p + 1..], b"\n", &mut joined, &mut acc);
                    if !acc.violations.is_empty() {
                        return vec!["resync:corpus-split".into()];
                    }
                }
            }
        }
        _ => {}
    }
    acc.violations.keys().cloned().collect()
}
