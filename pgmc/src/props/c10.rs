//! C10: version-1 cache files mean the same to every release that accepts them.
//! Histories: all (writer release, reader release) pairs over {pinned 5.5.0 snapshot, current tree}.
use crate::ast::*;
use crate::e1::*;
use crate::fw::*;
use crate::props::c02::{corpus_files, state_texts, universe_from_bytes};
use crate::q::Universe;
use crate::subj::{cur, pin, Fr, Subj};
use serde_json::{json, Value};

fn fr_json(f: &[Fr<'_>]) -> Value {
    json!(f.iter().map(|x| json!({"class":x.class,"method":x.method,"line":x.line as u64,"file":x.file,"params":x.params})).collect::<Vec<_>>())
}

/// all seven query kinds, two readers of the same file
pub fn diff_pair(uni: &Universe, x: &dyn Subj, y: &dyn Subj, writer: &str, acc: &mut Acc, size: usize, case: &dyn Fn(Value, Value, Value) -> Value) {
    let mut a: Vec<Fr<'_>> = Vec::new();
    let mut b: Vec<Fr<'_>> = Vec::new();
    macro_rules! bad {
        ($kind:expr, $q:expr, $l:expr, $r:expr) => {
            acc.violation(format!("reader-diff:{}:{}-written", $kind, writer), size, || {
                (format!("{} on a file written by the {} release: pinned reader {} current reader {}", $q, writer, $l, $r), case($q, $l, $r))
            })
        };
    }
    for class in uni.all_classes() {
        let (p, c) = (x.remap_class(class), y.remap_class(class));
        acc.observations += 1;
        acc.outcome(h64(&("class", p)), p.is_some());
        if p != c {
            bad!("class", json!({"kind":"class","class":class}), json!(p), json!(c));
        }
        let (p, c) = (x.remap_throwable(class, Some("m")), y.remap_throwable(class, Some("m")));
        acc.observations += 1;
        if p != c {
            bad!("throwable", json!({"kind":"throwable","class":class}), json!(format!("{:?}", p)), json!(format!("{:?}", c)));
        }
        for method in uni.all_methods() {
            let (p, c) = (x.remap_method(class, method), y.remap_method(class, method));
            acc.observations += 1;
            acc.outcome(h64(&("method", p)), p.is_some());
            if p != c {
                bad!("method", json!({"kind":"method","class":class,"method":method}), json!(format!("{:?}", p)), json!(format!("{:?}", c)));
            }
            for params in &uni.params {
                x.remap_frame(class, method, 0, None, Some(params), &mut a);
                y.remap_frame(class, method, 0, None, Some(params), &mut b);
                acc.observations += 1;
                acc.outcome(h64(&("byparams", &a[..])), !a.is_empty());
                if a != b {
                    bad!("byparams", json!({"kind":"byparams","class":class,"method":method,"params":params}), fr_json(&a), fr_json(&b));
                }
            }
        }
    }
    for class in &uni.classes {
        for method in uni.all_methods() {
            for &line in &uni.lines {
                for file in [None, Some("F.java")] {
                    if file.is_some() && line > 200 {
                        continue;
                    }
                    x.remap_frame(class, method, line, file, None, &mut a);
                    y.remap_frame(class, method, line, file, None, &mut b);
                    acc.observations += 1;
                    acc.outcome(h64(&("byline", &a[..])), !a.is_empty());
                    if a != b {
                        bad!("byline", json!({"kind":"byline","class":class,"method":method,"line":line as u64,"file":file}), fr_json(&a), fr_json(&b));
                    }
                }
            }
        }
    }
    for file in &uni.files_derived {
        for class in &uni.classes {
            for method in &uni.methods {
                for &line in &uni.lines_short {
                    x.remap_frame(class, method, line, Some(file), None, &mut a);
                    y.remap_frame(class, method, line, Some(file), None, &mut b);
                    acc.observations += 1;
                    if a != b {
                        bad!("byline", json!({"kind":"byline","class":class,"method":method,"line":line as u64,"file":file}), fr_json(&a), fr_json(&b));
                    }
                }
            }
        }
    }
    let (texts, sigs) = state_texts(uni);
    for t in &texts {
        let (p, c) = (x.remap_stacktrace(t), y.remap_stacktrace(t));
        acc.observations += 1;
        if p != c {
            bad!("text", json!({"kind":"text","text":t}), json!(format!("{:?}", p)), json!(format!("{:?}", c)));
        }
    }
    // Typed traces: only traces whose throwables are all known to the file. On a throwable that the
    // mapping does not know the pinned 5.5.0 release drops the exception (defect D2, repaired in the
    // current tree by the "fix: remap_stacktrace_typed keeps ..." commit, property C08); that difference
    // is independent of the file's bytes and is not what C10 is about.
    let known: Vec<&String> = uni.classes.iter().filter(|c| c.len() < 1000 && x.remap_class(c).is_some()).take(4).collect();
    let mut typed_text = String::new();
    for (i, c) in known.iter().enumerate() {
        typed_text.push_str(&if i == 0 { format!("{}: boom\n", c) } else { format!("Caused by: {}: inner {}\n", c, i) });
        for cls in uni.classes.iter().filter(|c| c.len() < 1000).take(4) {
            for m in uni.methods.iter().filter(|c| c.len() < 1000).take(4) {
                for l in uni.lines_short.iter() {
                    typed_text.push_str(&format!("    at {}.{}(F.java:{})\n", cls, m, l));
                }
            }
        }
        typed_text.push_str("    at zz.Unknown.x(U.java:3)\n");
    }
    if known.is_empty() {
        for cls in uni.classes.iter().take(4) {
            for m in uni.methods.iter().take(4) {
                typed_text.push_str(&format!("    at {}.{}(F.java:1)\n", cls, m));
            }
        }
    }
    for t in [&typed_text] {
        let (p, c) = (x.remap_typed_text(t), y.remap_typed_text(t));
        acc.observations += 1;
        if p != c {
            bad!("typed", json!({"kind":"typed","text":t}), json!(p.as_ref().map(|v| v.2.clone())), json!(c.as_ref().map(|v| v.2.clone())));
        }
    }
    for s in &sigs {
        // descriptors that C16 says nothing about (class names from the character-class families can make the derived
        // string malformed in an undocumented way) are not a statement about the file: a release may tighten its
        // descriptor parser without the cache format meaning anything else
        if !super::c16::pinned_by_c16(s) {
            continue;
        }
        let (p, c) = (x.deobfuscate_signature(s), y.deobfuscate_signature(s));
        acc.observations += 1;
        if p != c {
            bad!("signature", json!({"kind":"signature","signature":s}), json!(format!("{:?}", p)), json!(format!("{:?}", c)));
        }
    }
}

pub fn visit(mapping: &[u8], unis: &[Universe], case0: &dyn Fn() -> Value, acc: &mut Acc) {
    acc.states += 1;
    let size = mapping.len();
    let mut ab = Aligned::new(&[]);
    for writer in ["pinned", "current"] {
        let case = |q: Value, e: Value, g: Value| {
            let mut c = case0();
            c["oracle"] = json!("C10");
            c["writer"] = json!(writer);
            c["query"] = q;
            c["expected"] = e;
            c["observed"] = g;
            c
        };
        let r = guarded(|| {
            let file = if writer == "pinned" { pin::write_cache(mapping) } else { cur::write_cache(mapping) };
            let file = match file {
                Ok(f) => f,
                Err(e) => {
                    acc.violation(format!("write-error:{}", writer), size, || (format!("{} writer failed: {}", writer, e), case(json!(null), json!("ok"), json!(e))));
                    return;
                }
            };
            acc.transitions += 2; // one write, then handed to two readers
            ab.set(&file);
            let rp = pin::ProguardCache::parse(ab.as_slice());
            let rc = cur::ProguardCache::parse(ab.as_slice());
            match (&rp, &rc) {
                (Ok(p), Ok(c)) => {
                    for uni in unis {
                        diff_pair(uni, p, c, writer, acc, size, &case)
                    }
                }
                _ => {
                    // a reader may refuse a file only with the wrong-version error
                    if let Err(e) = &rp {
                        if e.kind() != pin::CacheErrorKind::WrongVersion {
                            let k = format!("{:?}", e.kind());
                            acc.violation(format!("pinned-reader-rejects:{}-written", writer), size, || {
                                (format!("the pinned reader rejects a file written by the {} writer with {} (only WrongVersion is allowed)", writer, k), case(json!("parse"), json!("Ok or WrongVersion"), json!(k)))
                            });
                        }
                    }
                    if let Err(e) = &rc {
                        if e.kind() != cur::CacheErrorKind::WrongVersion {
                            let k = format!("{:?}", e.kind());
                            acc.violation(format!("current-reader-rejects:{}-written", writer), size, || {
                                (format!("the current reader rejects a file written by the {} writer with {} (only WrongVersion is allowed)", writer, k), case(json!("parse"), json!("Ok or WrongVersion"), json!(k)))
                            });
                        }
                    }
                    acc.count(&format!("files rejected with WrongVersion by some reader [{}-written]", writer), 1);
                }
            }
        });
        if let Err(p) = r {
            acc.violation(format!("panic:{}", panic_site(&p)), size, || (format!("panic with {} writer: {}", writer, p), case(json!(null), json!("no panic"), json!(p))));
        }
    }
}

enum Item {
    Ast(usize, usize),
    Corpus(usize, usize, usize),
}

pub fn run(tier: Tier) -> i32 {
    let t = tier.thorough();
    let budget = Budget::new(if t { 14 * 60 } else { 50 });
    let spaces: Vec<Box<dyn Space>> = vec![
        Box::new(ms_a(2, t)),
        Box::new(ms_a_large(1)),
        Box::new(ms_b(if t { 5 } else { 4 }, true)),
        Box::new(ms_b(if t { 6 } else { 4 }, false)),
        Box::new(ms_c()),
        Box::new(ms_d(t)),
        Box::new(crate::families::scale_family(true)),
        Box::new(crate::families::sorted_run_family()),
        Box::new(crate::families::r8_metadata_family()),
        Box::new(crate::families::file_header_family()),
        Box::new(crate::families::far_apart_family_level(1)),
        // names the format stores as "absent" (empty original method names / empty obfuscated method names / an empty
        // foreign class): outside C02's domain, but such files exist and both readers must read them alike
        Box::new(SeqSpace::new(
            "empty names",
            vec![class("p.A", "a")],
            vec![
                method(Some((1, 3)), None, "", "", Orig::SE(10, 12), "m"),
                method(Some((1, 3)), None, "q", "", Orig::S(20), "m"),
                method(None, None, "", "int", Orig::None, "m"),
                method(Some((2, 2)), Some("x.Y"), "", "", Orig::None, "m"),
                method(None, None, "r", "", Orig::None, "n"),
                class("p.B", "b"),
            ],
            3,
        )),
        Box::new(crate::families::unicode_family()),
        Box::new(crate::families::relation_family()),
        Box::new(crate::families::giant_family()),
    ];
    let corpus = corpus_files();
    let mut items = Vec::new();
    for (si, s) in spaces.iter().enumerate() {
        for it in 0..s.n_items() {
            items.push(Item::Ast(si, it));
        }
    }
    let cshards = 32;
    for i in 0..corpus.len() {
        for s in 0..cshards {
            items.push(Item::Corpus(i, s, cshards));
        }
    }
    let mut acc = par_run(&items, &budget, |item, acc, budget| match item {
        Item::Ast(si, it) => {
            let sp = &spaces[*si];
            let mut bytes = Vec::new();
            let mut last = 0usize;
            sp.run_item(*it, budget, &mut |lines, term| {
                acc.transitions += if lines.len() > last { (lines.len() - last) as u64 } else { 1 };
                last = lines.len();
                print_file_into(lines, term, &mut bytes);
                let mut unis = crate::q::universes_for(lines, sp.wide());
                if lines.len() > 5000 {
                    // far-apart family: the filler entries between the two ends are queried in every 97th window only
                    let n = unis.len();
                    let mut k = 0;
                    unis.retain(|_| {
                        k += 1;
                        k <= 2 || k + 2 > n || k % 97 == 0
                    });
                }
                visit(&bytes, &unis, &|| file_to_json(lines, term), acc);
                acc.sample(1, || json!({"scope": sp.name(), "mapping": esc(&bytes), "pairs": "(pinned,pinned) (pinned,current) (current,pinned) (current,current)"}));
                acc.count(&format!("states[{}]", sp.name()), 1);
            });
        }
        Item::Corpus(ci, shard, n) => {
            // corpus: per class block universe, both writers, both readers
            let (name, bytes) = &corpus[*ci];
            if universe_from_bytes(bytes).is_none() {
                return;
            }
            let mut ab = Aligned::new(&[]);
            for writer in ["pinned", "current"] {
                let r = guarded(|| {
                    let file = if writer == "pinned" { pin::write_cache(bytes) } else { cur::write_cache(bytes) }.expect("write");
                    ab.set(&file);
                    let (Ok(rp), Ok(rc)) = (pin::ProguardCache::parse(ab.as_slice()), cur::ProguardCache::parse(ab.as_slice())) else {
                        acc.violation(format!("reader-rejects-corpus:{}-written", writer), bytes.len(), || (format!("{}: a reader rejects the {}-written cache", name, writer), json!({"kind":"corpus","file":name})));
                        return;
                    };
                    let mut blocks: Vec<(String, String, Vec<String>, Vec<String>, Vec<u64>)> = Vec::new();
                    for r in cur::ProguardMapping::new(bytes).iter().flatten() {
                        match r {
                            cur::ProguardRecord::Class { original, obfuscated } => blocks.push((obfuscated.to_string(), original.to_string(), vec![], vec![], vec![])),
                            cur::ProguardRecord::Method { original, obfuscated, arguments, line_mapping, .. } => {
                                if let Some(b) = blocks.last_mut() {
                                    for (v, s) in [(0, obfuscated), (0, original), (1, arguments)] {
                                        let tgt = if v == 0 { &mut b.2 } else { &mut b.3 };
                                        if !tgt.iter().any(|x| x == s) {
                                            tgt.push(s.to_string());
                                        }
                                    }
                                    if let Some(lm) = line_mapping {
                                        b.4.push(lm.startline as u64);
                                        b.4.push(lm.endline as u64);
                                    }
                                }
                            }
                            _ => {}
                        }
                    }
                    for (i, b) in blocks.iter().enumerate() {
                        if i % n != *shard {
                            continue;
                        }
                        if budget.exceeded() {
                            acc.notes.push(format!("wall-clock cap hit inside corpus file {}", name));
                            break;
                        }
                        let mut uni = Universe::from_names(vec![b.0.clone(), b.1.clone()], b.2.clone(), b.3.clone(), &[], false);
                        let mut lines: Vec<usize> = vec![0, 1, usize::MAX];
                        for c in &b.4 {
                            for d in [c.saturating_sub(1), *c, c + 1] {
                                if !lines.contains(&(d as usize)) {
                                    lines.push(d as usize);
                                }
                            }
                        }
                        uni.lines = lines;
                        acc.states += 1;
                        acc.count("states[MS-F corpus class blocks x writers]", 1);
                        let case = |q: Value, e: Value, g: Value| json!({"kind":"corpus","file":name,"writer":writer,"query":q,"expected":e,"observed":g});
                        diff_pair(&uni, &rp, &rc, writer, acc, bytes.len(), &case);
                    }
                });
                if let Err(p) = r {
                    acc.violation(format!("panic:{}", panic_site(&p)), bytes.len(), || (format!("{}: {}", name, p), json!({"kind":"corpus","file":name})));
                }
            }
        }
    });
    acc.transitions += acc.observations;
    let meta = RunMeta {
        prop: "C10",
        tier,
        level: "model_checking",
        rule: "states = mappings; transitions = write with release W in {pinned 5.5.0, current}, then parse with both releases' readers; in every state the complete query universe is answered by both readers of the same file and compared (a reader may instead reject with WrongVersion, nothing else). distinct = distinct pinned-reader answers; non-trivial = non-empty answers".into(),
        bounds: json!({"scopes": spaces.iter().map(|s| { let mut d = s.describe(); if d.get("alphabet").is_some() { d["alphabet"] = json!("see pgmc/src/e1.rs"); } d }).collect::<Vec<_>>(), "corpus_files": corpus.len(), "release_pairs": 4}),
        assumptions: vec!["signature queries use descriptors that are valid or belong to one of C16's must-be-none kinds (for any other string no property fixes the answer, and a release may tighten its descriptor parser without the file meaning anything else)".into(), "typed-trace queries use traces whose throwables are known to the file: on unknown throwables the pinned release drops the exception (defect D2, repaired in the current tree; property C08), independent of the file".into(), "'the pinned release' = the vendored snapshot /verif/pinned (src/ of commit f3fcb84, crate version 5.5.0) built with the same profile".into()],
        trusted_base: vec!["rustc/std".into(), "vendored snapshot /verif/pinned".into()],
    };
    finish(meta, acc, &budget, &|c| recheck(c))
}

pub fn recheck(case: &Value) -> Vec<String> {
    let mut acc = Acc::new();
    match case["kind"].as_str().unwrap_or("") {
        "ast" => {
            let (lines, term) = file_from_json(case);
            let bytes = print_file(&lines, term);
            let unis = crate::q::universes_for(&lines, false);
            visit(&bytes, &unis, &|| file_to_json(&lines, term), &mut acc);
        }
        "corpus" => {
            // re-run the whole file (all blocks) on one thread
            let name = case["file"].as_str().unwrap_or("").to_string();
            if let Ok(bytes) = std::fs::read(&name) {
                if let Some(uni) = universe_from_bytes(&bytes) {
                    let mut small = uni.clone();
                    small.lines.truncate(12);
                    visit(&bytes, std::slice::from_ref(&small), &|| json!({"kind":"corpus","file":name}), &mut acc);
                }
            }
        }
        _ => {}
    }
    acc.violations.keys().cloned().collect()
}
