//! C20 / E6 "sched": mapper and cache are shareable across threads and answer as if queried alone.
//!  - type-level gate: Send / Sync of the public handle, iterator and result types, evaluated at run
//!    time with the autoref-specialisation idiom (a missing auto trait is a reported violation naming the type);
//!  - schedules: real threads under shuttle's exhaustive DFS scheduler share one mapper / cache / mapping,
//!    each running a script of API steps with a scheduling point before every step;
//!  - a free-running pass with OS threads (labelled sampling, never the deciding step).
use crate::fw::*;
use crate::subj::cur;
use serde_json::{json, Value};
use std::marker::PhantomData;
use std::sync::atomic::{AtomicU64, Ordering};
use std::sync::{Arc, Mutex};

// ---------------------------------------------------------------------------------------------
// type-level gate

struct W<T: ?Sized>(PhantomData<T>);
trait SendNo {
    fn is_send(&self) -> bool {
        false
    }
}
impl<T: ?Sized> SendNo for &W<T> {}
trait SendYes {
    fn is_send(&self) -> bool {
        true
    }
}
impl<T: ?Sized + Send> SendYes for W<T> {}
trait SyncNo {
    fn is_sync(&self) -> bool {
        false
    }
}
impl<T: ?Sized> SyncNo for &W<T> {}
trait SyncYes {
    fn is_sync(&self) -> bool {
        true
    }
}
impl<T: ?Sized + Sync> SyncYes for W<T> {}

fn w_of<T>(_: &T) -> W<T> {
    W(PhantomData)
}

macro_rules! gate {
    ($v:ident, $name:expr, $t:ty) => {{
        let w: W<$t> = W(PhantomData);
        $v.push(($name, (&w).is_send(), (&w).is_sync()));
    }};
}

pub const MAPPING: &[u8] = b"p.A -> a:\n# {\"id\":\"sourceFile\",\"fileName\":\"S.kt\"}\n    1:3:void x.Y.inl():10:12 -> m\n    1:3:void outer(int):20 -> m\n    5:6:void other() -> m\n    void nl(int) -> n\np.B -> b:\n    void q() -> n\n    void r() -> n\n";

fn type_table() -> Vec<(&'static str, bool, bool)> {
    let mut v: Vec<(&'static str, bool, bool)> = Vec::new();
    gate!(v, "ProguardMapper", cur::ProguardMapper<'static>);
    gate!(v, "ProguardCache", cur::ProguardCache<'static>);
    gate!(v, "ProguardMapping", cur::ProguardMapping<'static>);
    gate!(v, "ProguardRecordIter", proguard::ProguardRecordIter<'static>);
    gate!(v, "ProguardRecord", cur::ProguardRecord<'static>);
    gate!(v, "MappingSummary", proguard::MappingSummary<'static>);
    gate!(v, "RemappedFrameIter (mapper)", proguard::RemappedFrameIter<'static>);
    gate!(v, "StackFrame", cur::StackFrame<'static>);
    gate!(v, "StackTrace", cur::StackTrace<'static>);
    gate!(v, "Throwable", cur::Throwable<'static>);
    gate!(v, "DeobfuscatedSignature", proguard::DeobfuscatedSignature);
    gate!(v, "CacheError", cur::CacheError);
    gate!(v, "ParseError", proguard::ParseError<'static>);
    gate!(v, "LineMapping", proguard::LineMapping);
    // the cache's frame iterator type is not nameable from outside the crate
    let buf: &'static Aligned = Box::leak(Box::new(Aligned::new(&cur::write_cache(MAPPING).expect("write"))));
    let cache: &'static cur::ProguardCache<'static> = Box::leak(Box::new(cur::ProguardCache::parse(buf.as_slice()).expect("parse")));
    let frame = cur::StackFrame::new("a", "m", 2);
    let it = cache.remap_frame(&frame);
    let w = w_of(&it);
    v.push(("RemappedFrameIter (cache)", (&w).is_send(), (&w).is_sync()));
    // value-level entries for the unnameable `impl Trait` results
    let mapper: &'static cur::ProguardMapper<'static> = Box::leak(Box::new(cur::ProguardMapper::new(cur::ProguardMapping::new(MAPPING))));
    let sig_m: &'static proguard::DeobfuscatedSignature = Box::leak(Box::new(mapper.deobfuscate_signature("(La;I)Lb;").expect("signature")));
    let sig_c: &'static proguard::DeobfuscatedSignature = Box::leak(Box::new(cache.deobfuscate_signature("(La;I)Lb;").expect("signature")));
    let w = w_of(&sig_m.parameters_types());
    v.push(("DeobfuscatedSignature::parameters_types() (mapper)", (&w).is_send(), (&w).is_sync()));
    let w = w_of(&sig_c.parameters_types());
    v.push(("DeobfuscatedSignature::parameters_types() (cache)", (&w).is_send(), (&w).is_sync()));
    let w = w_of(&mapper.remap_frame(&frame));
    v.push(("RemappedFrameIter (mapper, value)", (&w).is_send(), (&w).is_sync()));
    let mapping: &'static cur::ProguardMapping<'static> = Box::leak(Box::new(cur::ProguardMapping::new(MAPPING)));
    let w = w_of(&mapping.iter());
    v.push(("ProguardMapping::iter() (value)", (&w).is_send(), (&w).is_sync()));
    let w = w_of(&mapping.summary());
    v.push(("ProguardMapping::summary() (value)", (&w).is_send(), (&w).is_sync()));
    v
}

// ---------------------------------------------------------------------------------------------
// scripts

pub struct Shared {
    mapper: cur::ProguardMapper<'static>,
    mapper_p: cur::ProguardMapper<'static>,
    cache: cur::ProguardCache<'static>,
    mapping: cur::ProguardMapping<'static>,
    /// only for the warm configurations (scripts >= WARM_OP0): a mapping of BIG_CLASSES classes
    big: Option<Big>,
}
pub struct Big {
    mapper: cur::ProguardMapper<'static>,
    cache: cur::ProguardCache<'static>,
}
/// number of base scripts (all ordered pairs of these are explored)
pub const BASE_OPS: usize = 16;
/// script 16: sections of the shared mapping
pub const SECTION_OP: usize = 16;
/// scripts 17..: warm configurations, op = WARM_OP0 + kind * 4 + subject * 2 + role
pub const WARM_OP0: usize = 17;
pub const WARM_KINDS: usize = 6;
const BIG_CLASSES: usize = 1100;
/// capacities C of a hypothetical bounded memo inside the shared handle: the handle first serves C distinct queries
/// of one kind (so that a ring / LRU of that capacity is exactly full and its oldest entry is the next victim), then
/// one thread re-asks the oldest ones while the other asks new ones
pub const WARM_CAPS: [usize; 11] = [0, 8, 16, 32, 64, 100, 128, 256, 512, 1000, 1024];
static BIG: std::sync::atomic::AtomicBool = std::sync::atomic::AtomicBool::new(false);
static WARM: std::sync::atomic::AtomicUsize = std::sync::atomic::AtomicUsize::new(0);
static WARM_KIND: std::sync::atomic::AtomicUsize = std::sync::atomic::AtomicUsize::new(0);

fn big_mapping() -> &'static [u8] {
    static TEXT: std::sync::OnceLock<&'static [u8]> = std::sync::OnceLock::new();
    TEXT.get_or_init(|| {
        let mut t = String::new();
        for i in 0..BIG_CLASSES {
            t.push_str(&format!("o.C{} -> c{:04}:\n    1:3:void m{}(int):10:12 -> m\n", i, i, i));
        }
        crate::ast::leak_bytes(t.as_bytes())
    })
}
fn big_cache_bytes() -> &'static [u8] {
    static BYTES: std::sync::OnceLock<&'static Aligned> = std::sync::OnceLock::new();
    BYTES.get_or_init(|| Box::leak(Box::new(Aligned::new(&cur::write_cache(big_mapping()).expect("write"))))).as_slice()
}
/// one query of `kind` for class number `i` of the big mapping on the mapper (subject 0) or the cache (subject 1)
fn big_query(b: &Big, kind: usize, subject: usize, i: usize) -> String {
    let c = format!("c{:04}", i);
    match (kind, subject) {
        (0, 0) => format!("{:?}", b.mapper.remap_class(&c)),
        (0, _) => format!("{:?}", b.cache.remap_class(&c)),
        (1, 0) => format!("{:?}", b.mapper.remap_method(&c, "m")),
        (1, _) => format!("{:?}", b.cache.remap_method(&c, "m")),
        (2, 0) => format!("{:?}", b.mapper.remap_frame(&cur::StackFrame::with_file(&c, "m", 2, "F.java")).collect::<Vec<_>>()),
        (2, _) => format!("{:?}", b.cache.remap_frame(&cur::StackFrame::with_file(&c, "m", 2, "F.java")).collect::<Vec<_>>()),
        (3, 0) => format!("{:?}", b.mapper.remap_frame(&cur::StackFrame::with_parameters(&c, "m", "int")).collect::<Vec<_>>()),
        (3, _) => format!("{:?}", b.cache.remap_frame(&cur::StackFrame::with_parameters(&c, "m", "int")).collect::<Vec<_>>()),
        (4, 0) => format!("{:?}", b.mapper.deobfuscate_signature(&format!("(L{};I)V", c)).map(|d| d.format_signature())),
        (4, _) => format!("{:?}", b.cache.deobfuscate_signature(&format!("(L{};I)V", c)).map(|d| d.format_signature())),
        (_, 0) => format!("{:?}", b.mapper.remap_stacktrace(&format!("{}: boom\n    at {}.m(F.java:2)\n", c, c))),
        (_, _) => format!("{:?}", b.cache.remap_stacktrace(&format!("{}: boom\n    at {}.m(F.java:2)\n", c, c))),
    }
}
// Deliberately forced: whether the library's types really are Send / Sync is decided by the run-time
// gate above and reported as a C20 violation naming the type; it must not turn into a build failure of
// the whole harness. When the gate reports a violation, the thread passes below are skipped.
unsafe impl Sync for Shared {}
unsafe impl Send for Shared {}

fn cache_bytes() -> &'static [u8] {
    static BYTES: std::sync::OnceLock<&'static Aligned> = std::sync::OnceLock::new();
    BYTES.get_or_init(|| Box::leak(Box::new(Aligned::new(&cur::write_cache(MAPPING).expect("write"))))).as_slice()
}

/// objects are rebuilt inside every execution, so a schedule always fails the same way
fn build_shared() -> Shared {
    Shared {
        mapper: cur::ProguardMapper::new(cur::ProguardMapping::new(MAPPING)),
        mapper_p: cur::ProguardMapper::new_with_param_mapping(cur::ProguardMapping::new(MAPPING), true),
        cache: cur::ProguardCache::parse(cache_bytes()).expect("parse"),
        mapping: cur::ProguardMapping::new(MAPPING),
        big: if BIG.load(Ordering::Relaxed) {
            let b = Big { mapper: cur::ProguardMapper::new_with_param_mapping(cur::ProguardMapping::new(big_mapping()), true), cache: cur::ProguardCache::parse(big_cache_bytes()).expect("parse") };
            // warm-up: the handle has served WARM distinct queries of one kind before the threads start
            let (w, k) = (WARM.load(Ordering::Relaxed), WARM_KIND.load(Ordering::Relaxed));
            for i in 0..w {
                for subject in 0..2 {
                    std::hint::black_box(big_query(&b, k, subject, i));
                }
            }
            Some(b)
        } else {
            None
        },
    }
}

pub const OPS: [&str; 41] = [
    "mapper.remap_class",
    "mapper.remap_method",
    "mapper.remap_frame by line (iterator steps)",
    "mapper.remap_frame by parameters (iterator steps)",
    "mapper.remap_stacktrace",
    "mapper.remap_stacktrace_typed",
    "mapper.deobfuscate_signature",
    "mapping.iter (iterator steps)",
    "mapping.uuid / summary / has_line_info",
    "cache.remap_class",
    "cache.remap_method",
    "cache.remap_frame by line (iterator steps)",
    "cache.remap_frame by parameters (iterator steps)",
    "cache.remap_stacktrace",
    "cache.remap_stacktrace_typed",
    "cache.deobfuscate_signature",
    "mapping.section(..) uuid / summary / has_line_info / is_valid",
    "warm:mapper.remap_class oldest", "warm:mapper.remap_class fresh", "warm:cache.remap_class oldest", "warm:cache.remap_class fresh",
    "warm:mapper.remap_method oldest", "warm:mapper.remap_method fresh", "warm:cache.remap_method oldest", "warm:cache.remap_method fresh",
    "warm:mapper.remap_frame-by-line oldest", "warm:mapper.remap_frame-by-line fresh", "warm:cache.remap_frame-by-line oldest", "warm:cache.remap_frame-by-line fresh",
    "warm:mapper.remap_frame-by-parameters oldest", "warm:mapper.remap_frame-by-parameters fresh", "warm:cache.remap_frame-by-parameters oldest", "warm:cache.remap_frame-by-parameters fresh",
    "warm:mapper.deobfuscate_signature oldest", "warm:mapper.deobfuscate_signature fresh", "warm:cache.deobfuscate_signature oldest", "warm:cache.deobfuscate_signature fresh",
    "warm:mapper.remap_stacktrace oldest", "warm:mapper.remap_stacktrace fresh", "warm:cache.remap_stacktrace oldest", "warm:cache.remap_stacktrace fresh",
];

const TEXTS: [&str; 3] = ["a: boom\n    at a.m(F.java:2)\n", "b\n    at b.n(F.java:1)\nCaused by: a: x\n    at a.m(F.java:5)\n", "zz: u\n    at a.n(F.java:9)\n"];
const SIGS: [&str; 3] = ["(La;I)Lb;", "([[Lb;)V", "(Lzz;)La;"];

/// run script `op` with `steps` steps; `pause` is the scheduling point placed before every step
pub fn run_script(op: usize, steps: usize, sh: &'static Shared, pause: &dyn Fn()) -> Vec<String> {
    let mut obs = Vec::new();
    let classes = ["a", "b", "zz", "a", "b"];
    let methods = [("a", "m"), ("b", "n"), ("a", "zz"), ("a", "n"), ("b", "m")];
    match op {
        0 | 9 => {
            for c in classes.iter().take(steps) {
                pause();
                obs.push(format!("{:?}", if op == 0 { sh.mapper.remap_class(c) } else { sh.cache.remap_class(c) }));
            }
        }
        1 | 10 => {
            for (c, m) in methods.iter().take(steps) {
                pause();
                obs.push(format!("{:?}", if op == 1 { sh.mapper.remap_method(c, m) } else { sh.cache.remap_method(c, m) }));
            }
        }
        2 => {
            let frame = cur::StackFrame::with_file("a", "m", 2, "F.java");
            let mut it = sh.mapper.remap_frame(&frame);
            for _ in 0..steps {
                pause();
                obs.push(format!("{:?}", it.next()));
            }
        }
        11 => {
            let frame = cur::StackFrame::with_file("a", "m", 2, "F.java");
            let mut it = sh.cache.remap_frame(&frame);
            for _ in 0..steps {
                pause();
                obs.push(format!("{:?}", it.next()));
            }
        }
        3 => {
            let frame = cur::StackFrame::with_parameters("b", "n", "");
            let mut it = sh.mapper_p.remap_frame(&frame);
            for _ in 0..steps {
                pause();
                obs.push(format!("{:?}", it.next()));
            }
        }
        12 => {
            let frame = cur::StackFrame::with_parameters("b", "n", "");
            let mut it = sh.cache.remap_frame(&frame);
            for _ in 0..steps {
                pause();
                obs.push(format!("{:?}", it.next()));
            }
        }
        4 | 13 => {
            for t in TEXTS.iter().cycle().take(steps) {
                pause();
                obs.push(format!("{:?}", if op == 4 { sh.mapper.remap_stacktrace(t) } else { sh.cache.remap_stacktrace(t) }));
            }
        }
        5 | 14 => {
            for t in TEXTS.iter().cycle().take(steps) {
                pause();
                let tr = cur::StackTrace::try_parse(t.as_bytes()).expect("trace parses");
                obs.push(if op == 5 { sh.mapper.remap_stacktrace_typed(&tr).to_string() } else { sh.cache.remap_stacktrace_typed(&tr).to_string() });
            }
        }
        6 | 15 => {
            for s in SIGS.iter().cycle().take(steps) {
                pause();
                obs.push(if op == 6 { format!("{:?}", sh.mapper.deobfuscate_signature(s).map(|d| d.format_signature())) } else { format!("{:?}", sh.cache.deobfuscate_signature(s).map(|d| d.format_signature())) });
            }
        }
        7 => {
            let mut it = sh.mapping.iter();
            for _ in 0..steps {
                pause();
                obs.push(format!("{:?}", it.next()));
            }
        }
        SECTION_OP => {
            // sections of the shared mapping: the first class block (no line info, no compiler header) and the rest
            let cut = MAPPING.windows(2).position(|w| w[0] == b'\n' && w[1] != b' ' && w[1] != b'#').map(|p| p + 1).unwrap_or(MAPPING.len() / 2);
            for k in 0..steps {
                pause();
                let sec = if k % 2 == 0 { sh.mapping.section(0..cut) } else { sh.mapping.section(cut..MAPPING.len()) };
                let su = sec.summary();
                obs.push(format!("{} {:?} {} {} {} {}", sec.uuid(), su.compiler(), su.class_count(), su.method_count(), sec.has_line_info(), sec.is_valid()));
            }
        }
        op if op >= WARM_OP0 => {
            let (kind, subject, role) = ((op - WARM_OP0) / 4, ((op - WARM_OP0) / 2) % 2, (op - WARM_OP0) % 2);
            let big = sh.big.as_ref().expect("big objects are built for warm scripts");
            for k in 0..steps {
                pause();
                obs.push(big_query(big, kind, subject, if role == 0 { k } else { BIG_CLASSES - 40 + k }));
            }
        }
        _ => {
            for k in 0..steps {
                pause();
                obs.push(match k % 3 {
                    0 => format!("{}", sh.mapping.uuid()),
                    1 => {
                        let s = sh.mapping.summary();
                        format!("{:?} {} {}", s.compiler(), s.class_count(), s.method_count())
                    }
                    _ => format!("{} {}", sh.mapping.has_line_info(), sh.mapping.is_valid()),
                });
            }
        }
    }
    obs
}

#[derive(Clone, Debug)]
struct Mismatch {
    scripts: Vec<usize>,
    steps: usize,
    thread: usize,
    interleaving: String,
    expected: Vec<String>,
    observed: Vec<String>,
}

/// explore all schedules of `scripts` (one thread each) x `steps` steps; returns (schedules, first mismatch)
fn explore(scripts: &[usize], steps: usize, solo: &Arc<Vec<Vec<String>>>) -> Result<(u64, u64, Option<Mismatch>), String> {
    let schedules = Arc::new(AtomicU64::new(0));
    let stepcount = Arc::new(AtomicU64::new(0));
    let found: Arc<Mutex<Option<Mismatch>>> = Arc::new(Mutex::new(None));
    let scripts_v: Vec<usize> = scripts.to_vec();
    let (sc, st, fo, so) = (schedules.clone(), stepcount.clone(), found.clone(), solo.clone());
    let r = guarded(move || {
        shuttle::check_dfs(
            move || {
                sc.fetch_add(1, Ordering::Relaxed);
                // fresh objects for this execution (leaked: shuttle threads need 'static; a few hundred bytes each)
                let sh: &'static Shared = Box::leak(Box::new(build_shared()));
                let log: Arc<Mutex<String>> = Arc::new(Mutex::new(String::new()));
                let mut hs = Vec::new();
                for (ti, &op) in scripts_v.iter().enumerate() {
                    let log = log.clone();
                    let st = st.clone();
                    hs.push(shuttle::thread::spawn(move || {
                        let pause = || {
                            shuttle::thread::yield_now();
                            st.fetch_add(1, Ordering::Relaxed);
                            log.lock().unwrap().push((b'A' + ti as u8) as char);
                        };
                        run_script(op, steps, sh, &pause)
                    }));
                }
                let results: Vec<Vec<String>> = hs.into_iter().map(|h| h.join().unwrap()).collect();
                for (ti, obs) in results.iter().enumerate() {
                    if *obs != so[scripts_v[ti]] {
                        let mut f = fo.lock().unwrap();
                        if f.is_none() {
                            *f = Some(Mismatch { scripts: scripts_v.clone(), steps, thread: ti, interleaving: log.lock().unwrap().clone(), expected: so[scripts_v[ti]].clone(), observed: obs.clone() });
                        }
                    }
                }
            },
            None,
        )
    });
    match r {
        Ok(()) => Ok((schedules.load(Ordering::Relaxed), stepcount.load(Ordering::Relaxed), found.lock().unwrap().clone())),
        Err(p) => Err(p),
    }
}

/// Baton scheduler over REAL OS threads: exactly one thread runs a step at a time, in the order given by an
/// interleaving (a sequence of thread ids in which every thread occurs `steps` times); all such sequences are
/// enumerated. Unlike shuttle's tasks these are OS threads, so `thread_local!` state of the subject behaves as
/// in production.
fn baton_explore(scripts: &[usize], steps: usize, solo: &[Vec<String>]) -> (u64, u64, Option<Mismatch>) {
    struct Baton {
        pos: Mutex<usize>,
        cv: std::sync::Condvar,
        seq: Vec<usize>,
    }
    let k = scripts.len();
    let mut schedules = 0u64;
    let mut stepcount = 0u64;
    let mut found: Option<Mismatch> = None;
    let mut seq: Vec<usize> = Vec::new();
    let mut left: Vec<usize> = vec![steps; k];
    fn rec(seq: &mut Vec<usize>, left: &mut Vec<usize>, run: &mut dyn FnMut(&[usize])) {
        if left.iter().all(|l| *l == 0) {
            run(seq);
            return;
        }
        for i in 0..left.len() {
            if left[i] > 0 {
                left[i] -= 1;
                seq.push(i);
                rec(seq, left, run);
                seq.pop();
                left[i] += 1;
            }
        }
    }
    let mut run = |order: &[usize]| {
        schedules += 1;
        stepcount += order.len() as u64;
        let sh: &'static Shared = Box::leak(Box::new(build_shared()));
        let baton = Arc::new(Baton { pos: Mutex::new(0), cv: std::sync::Condvar::new(), seq: order.to_vec() });
        let results: Vec<Vec<String>> = std::thread::scope(|s| {
            let hs: Vec<_> = scripts
                .iter()
                .enumerate()
                .map(|(ti, &op)| {
                    let baton = baton.clone();
                    s.spawn(move || {
                        let holding = std::cell::Cell::new(false);
                        let pause = || {
                            let mut p = baton.pos.lock().unwrap();
                            if holding.get() {
                                *p += 1;
                                baton.cv.notify_all();
                            }
                            while *p < baton.seq.len() && baton.seq[*p] != ti {
                                p = baton.cv.wait(p).unwrap();
                            }
                            holding.set(true);
                        };
                        let obs = run_script(op, steps, sh, &pause);
                        if holding.get() {
                            let mut p = baton.pos.lock().unwrap();
                            *p += 1;
                            baton.cv.notify_all();
                        }
                        obs
                    })
                })
                .collect();
            hs.into_iter().map(|h| h.join().unwrap()).collect()
        });
        for (ti, obs) in results.iter().enumerate() {
            if *obs != solo[scripts[ti]] && found.is_none() {
                found = Some(Mismatch {
                    scripts: scripts.to_vec(),
                    steps,
                    thread: ti,
                    interleaving: order.iter().map(|i| (b'A' + *i as u8) as char).collect(),
                    expected: solo[scripts[ti]].clone(),
                    observed: obs.clone(),
                });
            }
        }
    };
    rec(&mut seq, &mut left, &mut run);
    (schedules, stepcount, found)
}

/// wp scheduler (see wp.rs): real OS threads; scheduling points = the harness points (before every API call /
/// iterator step) + every store into the shared objects (phase 1) + every access to a location that was stored
/// to (phase 2, only when phase 1 saw a store); preemption-bounded DFS.
fn wp_explore(scripts: &[usize], steps: usize, solo: &[Vec<String>], bound: usize, cap: u64, wall_s: u64) -> Result<Value, String> {
    use crate::wp;
    let k = scripts.len();
    let _ = cache_bytes();
    let _ = solo; // computed by the caller before any protection is in place
    let mut found: Option<Mismatch> = None;
    let mut panic_msg: Option<String> = None;
    let mut written: std::collections::BTreeSet<usize> = std::collections::BTreeSet::new();
    let mut mem_sites: std::collections::BTreeSet<usize> = std::collections::BTreeSet::new();
    let mut watch: Vec<(usize, usize)> = Vec::new();
    let mut first_grants: Option<String> = None;
    let mut totals = json!({});
    for phase in 1..=2 {
        if phase == 2 {
            if written.is_empty() || found.is_some() || panic_msg.is_some() {
                break;
            }
            watch = written.iter().map(|o| (*o & !7usize, 8usize)).collect();
            watch.dedup();
        }
        let watch_now = watch.clone();
        let mut run = |prefix: &[usize]| -> Result<wp::Exec, String> {
            // built by a thread of its own: std's RandomState keys are per thread (first use: getrandom - owned through
            // the shim - then incremented per table), so every execution's hash tables get the same seeds
            let (shb, region) = std::thread::scope(|s| s.spawn(|| wp::build_in_arena(|| Box::new(build_shared()))).join()).map_err(|_| "building the shared objects panicked".to_string())?;
            let sh: &'static Shared = Box::leak(shb);
            let sched: &'static wp::Sched = Box::leak(Box::new(wp::Sched::new(k, prefix.to_vec())));
            wp::set_current(sched as *const wp::Sched as *mut wp::Sched);
            wp::protect(region, &watch_now);
            let mut all_done = true;
            let results: Vec<Result<Vec<String>, String>> = std::thread::scope(|s| {
                let hs: Vec<_> = scripts
                    .iter()
                    .enumerate()
                    .map(|(ti, &op)| {
                        s.spawn(move || {
                            struct Fin(&'static wp::Sched, usize);
                            impl Drop for Fin {
                                fn drop(&mut self) {
                                    self.0.finish(self.1);
                                }
                            }
                            wp::set_thread_id(ti);
                            let _fin = Fin(sched, ti);
                            let pause = || {
                                wp::new_step();
                                sched.point(ti, wp::Kind::Call);
                            };
                            // start point: nothing of the script (e.g. creating an iterator) runs before the first grant
                            pause();
                            guarded(|| run_script(op, steps, sh, &pause))
                        })
                    })
                    .collect();
                all_done = sched.wait_all(std::time::Duration::from_secs(3));
                hs.into_iter().map(|h| h.join().unwrap_or_else(|_| Err("thread panicked".into()))).collect()
            });
            wp::unprotect();
            wp::set_current(std::ptr::null_mut());
            let x = sched.into_exec(!all_done);
            for (_, kd) in &x.grants {
                if let wp::Kind::Mem { write, off, rip } = kd {
                    if *write {
                        written.insert(*off);
                    }
                    mem_sites.insert(*rip);
                }
            }
            let order: String = x.grants.iter().map(|(t, kd)| format!("{}{}", (b'A' + *t as u8) as char, match kd { wp::Kind::Call => "".to_string(), wp::Kind::Mem { write: true, off, .. } => format!("[store@{:#x}]", off), wp::Kind::Mem { off, .. } => format!("[load@{:#x}]", off) })).collect::<Vec<_>>().join(" ");
            if first_grants.is_none() {
                first_grants = Some(order.clone());
            }
            if !x.abandoned && !x.diverged {
                for (ti, r) in results.iter().enumerate() {
                    match r {
                        Ok(obs) => {
                            if *obs != solo[scripts[ti]] && found.is_none() {
                                found = Some(Mismatch { scripts: scripts.to_vec(), steps, thread: ti, interleaving: format!("phase {} choices {:?}: {}", phase, x.choices, order), expected: solo[scripts[ti]].clone(), observed: obs.clone() });
                            }
                        }
                        Err(p) => {
                            if panic_msg.is_none() {
                                panic_msg = Some(format!("{} (schedule: {})", p, order));
                            }
                        }
                    }
                }
            }
            Ok(x)
        };
        // determinism: the default schedule twice, identical grant sequence
        let a = run(&[])?;
        let b = run(&[])?;
        let key = |x: &wp::Exec| x.grants.iter().map(|(t, kd)| (*t, match kd { wp::Kind::Call => (0usize, 0usize), wp::Kind::Mem { write, off, .. } => (1 + usize::from(*write), *off) })).collect::<Vec<_>>();
        if key(&a) != key(&b) && !(a.timing || b.timing) {
            // The subject's stores into the shared objects differ between two runs of the same schedule (e.g. a hash
            // table inside the shared objects whose seed the harness does not own, or address-dependent code).
            // That is less coverage (the step-level schedulers still decide this configuration), never a verdict and
            // not a machinery error: the exploration of this phase is left out and reported as capped.
            totals[format!("phase{}", phase)] = json!({"executions": 2, "choice_points": 0, "mem_points": 0, "abandoned": 0, "stuck": 0, "timing_divergences": 0, "capped": true, "max_preemptions": 0, "nondeterministic_default_schedule": true});
            break;
        }
        let st = wp::explore(bound, cap, std::time::Duration::from_secs(wall_s), &mut run)?;
        totals[format!("phase{}", phase)] = json!({"executions": st.executions, "choice_points": st.choice_points, "mem_points": st.mem_points, "abandoned": st.abandoned, "stuck": st.stuck, "timing_divergences": st.timing_divergences, "capped": st.capped, "max_preemptions": st.max_preemptions});
    }
    let execs = totals["phase1"]["executions"].as_u64().unwrap_or(0) + totals["phase2"]["executions"].as_u64().unwrap_or(0);
    let cps = totals["phase1"]["choice_points"].as_u64().unwrap_or(0) + totals["phase2"]["choice_points"].as_u64().unwrap_or(0);
    let mut out = json!({"schedules": execs, "steps": cps, "mismatch": found.as_ref().map(mismatch_case), "wp": totals, "stores_into_shared_objects": written.len(), "mem_sites": mem_sites.len(),
        "stale_faults": wp::STALE_FAULTS.load(Ordering::Relaxed), "unscheduled_faults": wp::UNSCHEDULED_FAULTS.load(Ordering::Relaxed), "default_schedule": first_grants});
    if let Some(p) = panic_msg {
        out["panic"] = json!(p);
    }
    Ok(out)
}

/// wp self-test, part of every run: two threads do `v = n.load(); n.store(v + 1)` on an atomic that lives in the
/// protected arena. The store must be intercepted (memory points > 0) and the explorer must find the lost update
/// with one preemption; otherwise the wp scheduler is not working on this machine and no wp result is believed.
fn wp_canary() -> Result<Value, String> {
    use crate::wp;
    if !wp::arena_ok() {
        return Err("the arena's address space could not be reserved".into());
    }
    use std::sync::atomic::AtomicU32;
    let mut lost = 0u64;
    let mut finals: std::collections::BTreeSet<u32> = std::collections::BTreeSet::new();
    let mut mem = 0u64;
    let mut run = |prefix: &[usize]| -> Result<wp::Exec, String> {
        let (cell, region) = wp::build_in_arena(|| Box::new((AtomicU32::new(0), vec![7u8; 5000])));
        let cell: &'static (AtomicU32, Vec<u8>) = Box::leak(cell);
        let sched: &'static wp::Sched = Box::leak(Box::new(wp::Sched::new(2, prefix.to_vec())));
        wp::set_current(sched as *const wp::Sched as *mut wp::Sched);
        wp::protect(region, &[]);
        let mut ok = true;
        std::thread::scope(|s| {
            for ti in 0..2usize {
                s.spawn(move || {
                    struct Fin(&'static wp::Sched, usize);
                    impl Drop for Fin {
                        fn drop(&mut self) {
                            self.0.finish(self.1);
                        }
                    }
                    wp::set_thread_id(ti);
                    let _fin = Fin(sched, ti);
                    wp::new_step();
                    sched.point(ti, wp::Kind::Call);
                    let v = cell.0.load(Ordering::Relaxed);
                    cell.0.store(v + 1, Ordering::Relaxed);
                });
            }
            ok = sched.wait_all(std::time::Duration::from_secs(3));
        });
        wp::unprotect();
        wp::set_current(std::ptr::null_mut());
        let x = sched.into_exec(!ok);
        mem += x.grants.iter().filter(|(_, k)| matches!(k, wp::Kind::Mem { .. })).count() as u64;
        let f = cell.0.load(Ordering::Relaxed);
        finals.insert(f);
        if f != 2 {
            lost += 1;
        }
        Ok(x)
    };
    let st = wp::explore(1, 200, std::time::Duration::from_secs(10), &mut run)?;
    if mem == 0 || lost == 0 {
        return Err(format!("wp canary failed: {} executions, {} memory points, final values {:?} (a store into the protected arena was not intercepted, or the lost update was not found)", st.executions, mem, finals));
    }
    Ok(json!({"canary_executions": st.executions, "canary_memory_points": mem, "canary_lost_updates_found": lost, "schedules": st.executions, "steps": st.choice_points, "mismatch": null}))
}

/// child entry point: `pgmc c20-config <shuttle|baton> <steps> <a,b[,c]>`: explore ONE configuration in a
/// pristine process (so state the subject keeps in statics cannot leak from one configuration into another
/// and a failing configuration always replays) and print one JSON line
pub fn config_main(args: &[String]) -> i32 {
    let mode = args.first().map(|s| s.as_str()).unwrap_or("shuttle");
    let steps: usize = args.get(1).and_then(|s| s.parse().ok()).unwrap_or(3);
    let scripts: Vec<usize> = args.get(2).map(|s| s.split(',').filter_map(|x| x.parse().ok()).collect()).unwrap_or_default();
    // warm configurations: solo answers come from an unwarmed handle, the executions warm theirs first
    let warm: usize = std::env::var("PGMC_C20_WARM").ok().and_then(|s| s.parse().ok()).unwrap_or(0);
    BIG.store(scripts.iter().any(|&o| o >= WARM_OP0), Ordering::Relaxed);
    let solo = Arc::new(solo_observations(steps));
    if let Some(&o) = scripts.iter().find(|&&o| o >= WARM_OP0) {
        WARM_KIND.store((o - WARM_OP0) / 4, Ordering::Relaxed);
        WARM.store(warm, Ordering::Relaxed);
    }
    let out = if mode == "wp-canary" {
        match wp_canary() {
            Ok(v) => v,
            Err(e) => json!({"machinery": e}),
        }
    } else if mode == "wp" {
        let bound: usize = std::env::var("PGMC_WP_BOUND").ok().and_then(|s| s.parse().ok()).unwrap_or(2);
        let cap: u64 = std::env::var("PGMC_WP_CAP").ok().and_then(|s| s.parse().ok()).unwrap_or(1500);
        let wall_s: u64 = std::env::var("PGMC_WP_WALL_S").ok().and_then(|s| s.parse().ok()).unwrap_or(8);
        match wp_explore(&scripts, steps, &solo, bound, cap, wall_s) {
            Ok(v) => v,
            Err(e) => json!({"machinery": e}),
        }
    } else if mode == "baton" {
        let r = guarded(|| baton_explore(&scripts, steps, &solo));
        match r {
            Ok((n, st, m)) => json!({"schedules": n, "steps": st, "mismatch": m.as_ref().map(mismatch_case)}),
            Err(p) => json!({"panic": p}),
        }
    } else {
        match explore(&scripts, steps, &solo) {
            Ok((n, st, m)) => json!({"schedules": n, "steps": st, "mismatch": m.as_ref().map(mismatch_case)}),
            Err(p) => json!({"panic": p}),
        }
    };
    println!("{}", out);
    0
}

/// preemption bound of the wp scheduler for this run (2 quick, 3 thorough; a replay takes it from the case)
static WP_BOUND: std::sync::atomic::AtomicUsize = std::sync::atomic::AtomicUsize::new(2);

/// configuration processes run under the getrandom shim (when it was built): the seeds of std's RandomState are then
/// the same in every execution, so a hash table inside the shared objects does not make the schedules irreproducible
fn shim_env() -> Vec<(String, String)> {
    let p = format!("{}/shim/getrandom_shim.so", verif_dir());
    if std::path::Path::new(&p).exists() {
        vec![("LD_PRELOAD".to_string(), p), ("PGMC_HASH_SEED".to_string(), "7".to_string())]
    } else {
        Vec::new()
    }
}
fn run_config(mode: &str, scripts: &[usize], steps: usize) -> Result<Value, String> {
    run_config_w(mode, scripts, steps, 0)
}
fn run_config_w(mode: &str, scripts: &[usize], steps: usize, warm: usize) -> Result<Value, String> {
    let exe = std::env::current_exe().map_err(|e| e.to_string())?;
    let list = scripts.iter().map(|s| s.to_string()).collect::<Vec<_>>().join(",");
    let o = std::process::Command::new(exe).args(["c20-config", mode, &steps.to_string(), &list]).env("PGMC_CHILD", "1").env("PGMC_C20_WARM", warm.to_string()).envs(shim_env()).env("PGMC_WP_BOUND", WP_BOUND.load(Ordering::Relaxed).to_string()).env("PGMC_WP_CAP", if WP_BOUND.load(Ordering::Relaxed) > 2 { "20000" } else { "1500" }).env("PGMC_WP_WALL_S", if WP_BOUND.load(Ordering::Relaxed) > 2 { "60" } else { "8" }).stderr(std::process::Stdio::null()).output().map_err(|e| e.to_string())?;
    if !o.status.success() {
        return Err(format!("configuration process ended with {:?}", o.status));
    }
    let txt = String::from_utf8_lossy(&o.stdout);
    let line = txt.lines().rev().find(|l| l.starts_with('{')).ok_or("no result line")?;
    serde_json::from_str(line).map_err(|e| e.to_string())
}

fn solo_observations(steps: usize) -> Vec<Vec<String>> {
    let sh: &'static Shared = Box::leak(Box::new(build_shared()));
    (0..OPS.len()).map(|op| if op >= WARM_OP0 && sh.big.is_none() { Vec::new() } else { run_script(op, steps, sh, &|| {}) }).collect()
}

fn mismatch_case(m: &Mismatch) -> Value {
    json!({"kind":"sched","scripts": m.scripts, "script_names": m.scripts.iter().map(|&i| OPS[i]).collect::<Vec<_>>(), "steps": m.steps, "thread": m.thread, "interleaving": m.interleaving, "expected": m.expected, "observed": m.observed})
}

/// History pass: queries issued one after the other against ONE shared cache / mapper, by one thread and by two
/// OS threads taking turns (barrier-forced order); every answer must be what the query returns alone (known by
/// construction). The mappings are chosen so that state kept between calls has something to confuse:
/// (a) class names colliding under common 32-bit fingerprints, (b) more than 65536 classes (indices 2^16 apart).
fn history_pass(acc: &mut Acc) {
    // (0) handles parsed from recycled memory, queried by this long-lived thread (props/hist.rs): what a thread
    // remembers from an earlier handle must not change what a shared handle answers to it
    super::hist::reuse_history(acc);
    // (a) collisions
    let pairs = crate::families::collision_pairs();
    let mut text = String::new();
    for (k, (_, a, b)) in pairs.iter().enumerate() {
        text.push_str(&format!("x.A{} -> {}:\n    1:2:void one{}():3:4 -> m\n", k, a, k));
        text.push_str(&format!("x.B{} -> {}:\n    void two{}() -> m\n    void extra() -> m\n", k, b, k));
    }
    let bytes: &'static [u8] = crate::ast::leak_bytes(text.as_bytes());
    let mapper = cur::ProguardMapper::new(cur::ProguardMapping::new(bytes));
    let buf: &'static Aligned = Box::leak(Box::new(Aligned::new(&cur::write_cache(bytes).expect("write"))));
    let cache = cur::ProguardCache::parse(buf.as_slice()).expect("parse");
    struct Force<T>(T);
    unsafe impl<T> Sync for Force<T> {}
    let shared = Force((&mapper, &cache));
    // queries for the two names of pair k in the given order; expectations are attached to the NAME, not the position
    let check_pair = |k: usize, a: &str, b: &str, a_first: bool, who: &str, acc: &mut Acc| {
        let (m, c) = shared.0;
        let info = |is_a: bool| -> (&str, String, usize, Option<String>) {
            if is_a {
                (a, format!("x.A{}", k), 1, Some(format!("one{}", k)))
            } else {
                (b, format!("x.B{}", k), 2, None)
            }
        };
        let order = if a_first { [true, false, true] } else { [false, true, false] };
        for is_a in order {
            let (name, cls, nframes, meth) = info(is_a);
            let f = cur::StackFrame::new(name, "m", 1);
            let obs: [(Option<String>, Option<String>, &str); 6] = [
                (c.remap_class(name).map(|s| s.to_string()), Some(cls.clone()), "cache.remap_class"),
                (m.remap_class(name).map(|s| s.to_string()), Some(cls.clone()), "mapper.remap_class"),
                (Some(c.remap_frame(&f).count().to_string()), Some(nframes.to_string()), "cache.remap_frame"),
                (Some(m.remap_frame(&f).count().to_string()), Some(nframes.to_string()), "mapper.remap_frame"),
                (c.remap_method(name, "m").map(|x| x.1.to_string()), meth.clone(), "cache.remap_method"),
                (m.remap_method(name, "m").map(|x| x.1.to_string()), meth.clone(), "mapper.remap_method"),
            ];
            acc.observations += obs.len() as u64;
            acc.transitions += obs.len() as u64;
            for (got, exp, what) in obs {
                if got != exp {
                    acc.violation(format!("history:{}", what), 2, || (format!("{}: {}({:?}) issued next to queries for its colliding partner ({:?} / {:?}) answered {:?}, alone it answers {:?}", who, what, name, a, b, got, exp), json!({"kind":"history"})));
                }
            }
        }
    };
    for (k, (_, a, b)) in pairs.iter().enumerate() {
        acc.states += 1;
        check_pair(k, a, b, true, "one thread", acc);
        check_pair(k, a, b, false, "one thread (reverse order)", acc);
    }
    // two OS threads taking turns on the same objects: T1 asks for A, then T2 asks for B, then T1 for A again ...
    let bad: Mutex<Vec<String>> = Mutex::new(Vec::new());
    let barrier = std::sync::Barrier::new(2);
    std::thread::scope(|s| {
        for t in 0..2usize {
            let (shared, pairs, barrier, bad) = (&shared, pairs, &barrier, &bad);
            s.spawn(move || {
                let (m, c) = shared.0;
                for (k, (_, a, b)) in pairs.iter().enumerate() {
                    for round in 0..4usize {
                        barrier.wait();
                        if round % 2 == t {
                            let (name, exp) = if t == 0 { (a, format!("x.A{}", k)) } else { (b, format!("x.B{}", k)) };
                            let got_c = c.remap_class(name).map(|s| s.to_string());
                            let got_m = m.remap_class(name).map(|s| s.to_string());
                            if got_c.as_deref() != Some(&exp) || got_m.as_deref() != Some(&exp) {
                                bad.lock().unwrap().push(format!("thread {} asked for {:?} right after the other thread asked for its colliding partner: cache {:?} mapper {:?}, expected {:?}", t, name, got_c, got_m, exp));
                            }
                        }
                    }
                }
            });
        }
    });
    for d in bad.lock().unwrap().iter().take(3) {
        acc.violation("history:two-threads-taking-turns", 2, || (d.clone(), json!({"kind":"history"})));
    }
    acc.count("history pass: colliding name pairs", pairs.len() as u64);
    // (b) more than 65536 classes; class k has method `a` with 1 + ((k >> 16) + k) % 2 mapping lines, so that
    //     classes 65535 and 65536 positions apart differ in the number of lines
    let n = 70_000usize;
    let mut text = String::with_capacity(n * 80);
    for k in 0..n {
        text.push_str(&format!("p.C{} -> c{:05}:\n    1:1:void a():5 -> a\n", k, k));
        if ((k >> 16) + k) % 2 == 1 {
            text.push_str("    1:1:void b():6 -> a\n");
        }
    }
    let bytes: &'static [u8] = crate::ast::leak_bytes(text.as_bytes());
    let mapper = cur::ProguardMapper::new(cur::ProguardMapping::new(bytes));
    let buf: &'static Aligned = Box::leak(Box::new(Aligned::new(&cur::write_cache(bytes).expect("write"))));
    let cache = cur::ProguardCache::parse(buf.as_slice()).expect("parse");
    let mut wrong = 0u64;
    let mut first: Option<String> = None;
    for k in 0..(n - 65535) {
        for (i, j) in [(k, k + 65535), (k + 65535, k)] {
            for idx in [i, j] {
                let name = format!("c{:05}", idx);
                let f = cur::StackFrame::new(&name, "a", 1);
                let exp = ((idx >> 16) + idx) % 2 + 1;
                let (gc, gm) = (cache.remap_frame(&f).count(), mapper.remap_frame(&f).count());
                let oc = cache.remap_class(&name).map(|s| s.to_string());
                acc.observations += 3;
                if gc != exp || gm != exp || oc != Some(format!("p.C{}", idx)) {
                    wrong += 1;
                    if first.is_none() {
                        first = Some(format!("class {} (queried next to class index {} +- 65535): cache {} frames, mapper {} frames, expected {}; remap_class {:?}", name, if idx == i { j } else { i }, gc, gm, exp, oc));
                    }
                }
            }
        }
    }
    // the same with a stride of exactly 65536
    for k in 0..(n - 65536) {
        for idx in [k, k + 65536, k] {
            let name = format!("c{:05}", idx);
            let f = cur::StackFrame::new(&name, "a", 1);
            let exp = ((idx >> 16) + idx) % 2 + 1;
            let gc = cache.remap_frame(&f).count();
            acc.observations += 1;
            if gc != exp {
                wrong += 1;
                if first.is_none() {
                    first = Some(format!("class {} queried right after the class 65536 positions away: cache {} frames, expected {}", name, gc, exp));
                }
            }
        }
    }
    acc.states += 1;
    acc.transitions += 4 * n as u64;
    acc.count("history pass: classes in the large mapping", n as u64);
    // (c) one method with many single-line ranges that are NOT in ascending order (descending, zig-zag, one early
    //     high range): every line asked in ascending, descending and alternating order on the same objects
    for m in [33usize, 100, 129, 151, 401] {
        for shape in 0..3usize {
            let order: Vec<usize> = match shape {
                0 => (0..m).rev().collect(),
                1 => (0..m).map(|i| if i % 2 == 0 { i / 2 } else { m - 1 - i / 2 }).collect(),
                _ => std::iter::once(m - 1).chain(0..m - 1).collect(),
            };
            let mut text = String::from("s.Desc -> desc:\n");
            for k in &order {
                text.push_str(&format!("    {}:{}:void o{}():{} -> d\n", 10 * k + 1, 10 * k + 5, k, 1000 + k));
            }
            let bytes: &'static [u8] = crate::ast::leak_bytes(text.as_bytes());
            let mapper = cur::ProguardMapper::new(cur::ProguardMapping::new(bytes));
            let buf: &'static Aligned = Box::leak(Box::new(Aligned::new(&cur::write_cache(bytes).expect("write"))));
            let cache = cur::ProguardCache::parse(buf.as_slice()).expect("parse");
            let asc: Vec<usize> = (0..m).collect();
            let desc: Vec<usize> = (0..m).rev().collect();
            let alt: Vec<usize> = (0..m).map(|i| if i % 2 == 0 { i / 2 } else { m - 1 - i / 2 }).collect();
            let hop: Vec<usize> = (0..m).map(|i| (i * 37) % m).collect();
            for (seq, offsets) in [(&asc, &[1usize, 3, 5][..]), (&desc, &[5, 1][..]), (&alt, &[3][..]), (&hop, &[1, 5][..]), (&asc, &[1, 3, 5, 7][..]), (&desc, &[7, 5][..]), (&hop, &[3, 7][..])] {
                for &k in seq.iter() {
                    for line in offsets.iter().map(|o| 10 * k + o) {
                        let f = cur::StackFrame::new("desc", "d", line);
                        let exp: Vec<String> = if line <= 10 * k + 5 { vec![format!("o{}:{}", k, 1000 + k)] } else { vec![] };
                        let gm: Vec<String> = mapper.remap_frame(&f).map(|x| format!("{}:{}", x.method(), x.line())).collect();
                        let gc: Vec<String> = cache.remap_frame(&f).map(|x| format!("{}:{}", x.method(), x.line())).collect();
                        acc.observations += 2;
                        if gm != exp || gc != exp {
                            acc.violation("history:unsorted-ranges", 4, || (format!("{} ranges in file order shape {}: line {} asked in a sequence of queries on the same objects: mapper {:?} cache {:?}, alone it answers {:?}", m, shape, line, gm, gc, exp), json!({"kind":"history"})));
                        }
                    }
                }
            }
            acc.states += 1;
        }
    }
    if let Some(d) = first {
        acc.violation("history:large-mapping", 3, || (format!("{} ({} wrong answers)", d, wrong), json!({"kind":"history"})));
    }
}

fn source_scan() -> Vec<String> {
    let mut out = Vec::new();
    let mut stack = vec![std::path::PathBuf::from(format!("{}/src", crate::fw::repo_dir()))];
    let mut counts = std::collections::BTreeMap::new();
    while let Some(p) = stack.pop() {
        if let Ok(rd) = std::fs::read_dir(&p) {
            for e in rd.flatten() {
                let path = e.path();
                if path.is_dir() {
                    stack.push(path);
                } else if path.extension().map(|x| x == "rs").unwrap_or(false) {
                    if let Ok(t) = std::fs::read_to_string(&path) {
                        for pat in ["unsafe ", "static mut", "Cell<", "RefCell", "thread_local", "Mutex", "RwLock", "Atomic", "Rc<", "lazy_static"] {
                            let n = t.matches(pat).count();
                            if n > 0 {
                                *counts.entry(pat).or_insert(0usize) += n;
                            }
                        }
                    }
                }
            }
        }
    }
    out.push(format!("source scan of /repo/src (an assumption record, never an alarm): occurrences {:?}", counts));
    out
}

/// (3b) contention pass (sampling, labelled; never deciding): state the subject keeps in its own statics is outside
/// wp's reach, so it is hammered instead - 4 threads, each asking its own classes of a 1100-class handle 4000 times
/// per query kind, and 8 threads remapping a 600-cause typed trace at the same time; every answer must be the
/// answer a fresh handle gives
fn contention_pass(acc: &mut Acc) {
        let big = Big { mapper: cur::ProguardMapper::new_with_param_mapping(cur::ProguardMapping::new(big_mapping()), true), cache: cur::ProguardCache::parse(big_cache_bytes()).expect("parse") };
        struct Force<T>(T);
        unsafe impl<T> Sync for Force<T> {}
        let shared = Force(&big);
        let mut hammered = 0u64;
        for kind in 0..WARM_KINDS {
            for subject in 0..2usize {
                let expected: Vec<Vec<String>> = (0..4usize).map(|ti| (0..3usize).map(|k| big_query(&big, kind, subject, 100 * ti + k)).collect()).collect();
                let bad: Mutex<Option<String>> = Mutex::new(None);
                std::thread::scope(|s| {
                    for ti in 0..4usize {
                        let (shared, expected, bad) = (&shared, &expected, &bad);
                        s.spawn(move || {
                            for round in 0..4000usize {
                                let k = round % 3;
                                let got = big_query(shared.0, kind, subject, 100 * ti + k);
                                if got != expected[ti][k] {
                                    *bad.lock().unwrap() = Some(format!("4 threads hammering '{}': thread {} got {} for its class {} (alone: {})", OPS[WARM_OP0 + kind * 4 + subject * 2], ti, got, 100 * ti + k, expected[ti][k]));
                                    break;
                                }
                            }
                        });
                    }
                });
                hammered += 16000;
                let found: Option<String> = bad.lock().unwrap().clone();
                if let Some(d) = found {
                    acc.violation("free-running:contention:differs-from-solo", 2, || (d.clone(), json!({"kind":"contention"})));
                }
            }
        }
        // deep typed traces at the same time (per-call bookkeeping kept in a static adds up across threads)
        let mut deep = String::from("a: top\n    at a.m(F.java:2)\n");
        for i in 0..600 {
            deep.push_str(&format!("Caused by: b: level {}\n    at b.n(F.java:1)\n", i));
        }
        let sh2: &'static Shared = Box::leak(Box::new(build_shared()));
        let solo_deep: Vec<String> = {
            let tr = cur::StackTrace::try_parse(deep.as_bytes()).expect("deep trace parses");
            vec![sh2.mapper.remap_stacktrace_typed(&tr).to_string(), sh2.cache.remap_stacktrace_typed(&tr).to_string(), format!("{:?}", sh2.mapper.remap_stacktrace(&deep)), format!("{:?}", sh2.cache.remap_stacktrace(&deep))]
        };
        let bad: Mutex<Option<String>> = Mutex::new(None);
        std::thread::scope(|s| {
            for ti in 0..8usize {
                let (deep, solo_deep, bad) = (&deep, &solo_deep, &bad);
                s.spawn(move || {
                    for _ in 0..6 {
                        let tr = cur::StackTrace::try_parse(deep.as_bytes()).expect("deep trace parses");
                        let got = vec![sh2.mapper.remap_stacktrace_typed(&tr).to_string(), sh2.cache.remap_stacktrace_typed(&tr).to_string(), format!("{:?}", sh2.mapper.remap_stacktrace(deep)), format!("{:?}", sh2.cache.remap_stacktrace(deep))];
                        for (k, g) in got.iter().enumerate() {
                            if *g != solo_deep[k] {
                                *bad.lock().unwrap() = Some(format!("8 threads remapping a 600-cause trace: thread {} result #{} ({} bytes) differs from the result alone ({} bytes)", ti, k, g.len(), solo_deep[k].len()));
                            }
                        }
                    }
                });
            }
        });
        hammered += 8 * 6 * 4;
        let found: Option<String> = bad.lock().unwrap().clone();
        if let Some(d) = found {
            acc.violation("free-running:contention:differs-from-solo", 3, || (d.clone(), json!({"kind":"contention"})));
        }
        acc.count("contention-pass queries on 4 / 8 OS threads (sampling, not part of the exhaustive claim)", hammered);
    }

pub fn run(tier: Tier) -> i32 {
    let t = tier.thorough();
    let budget = Budget::new(if t { 14 * 60 } else { 50 });
    let mut acc = Acc::new();
    WP_BOUND.store(if t { 3 } else { 2 }, Ordering::Relaxed);
    // (1) type-level gate
    let table = type_table();
    for (name, send, sync) in &table {
        acc.states += 1;
        acc.transitions += 1;
        acc.observations += 2;
        acc.outcome(h64(&(name, send, sync)), true);
        if !send || !sync {
            acc.violation(format!("auto-trait:{}", name.replace(' ', "_")), 0, || (format!("{} is not {}", name, if !send && !sync { "Send nor Sync" } else if !send { "Send" } else { "Sync" }), json!({"kind":"auto-trait","type":name,"send":send,"sync":sync})));
        }
    }
    // (2) schedules
    let gate_failed = !acc.violations.is_empty();
    if gate_failed {
        acc.notes.push("the type gate failed: schedule exploration and free-running pass skipped (sharing a non-Sync value between threads would be undefined behaviour)".into());
    }
    let mut configs: Vec<(Vec<usize>, usize, usize)> = Vec::new();
    for a in 0..BASE_OPS {
        for b in 0..BASE_OPS {
            configs.push((vec![a, b], 3, 0));
        }
    }
    // sections of the shared mapping against the mapping scripts (record iteration, uuid / summary) and themselves
    for pair in [[SECTION_OP, SECTION_OP], [8, SECTION_OP], [SECTION_OP, 8], [7, SECTION_OP], [SECTION_OP, 7]] {
        configs.push((pair.to_vec(), 3, 0));
    }
    // warm configurations: the shared handle has served C distinct queries of one kind; thread A re-asks the oldest
    // ones while thread B asks new ones (a full bounded memo evicts exactly what A is reading)
    for kind in 0..WARM_KINDS {
        for subject in 0..2 {
            let oldest = WARM_OP0 + kind * 4 + subject * 2;
            for &c in WARM_CAPS.iter() {
                if !t && ![0usize, 16, 64, 256, 1024].contains(&c) {
                    continue;
                }
                configs.push((vec![oldest, oldest + 1], 3, c));
            }
        }
    }
    if t {
        for a in 0..BASE_OPS {
            for b in a..BASE_OPS {
                configs.push((vec![a, b], 5, 0));
            }
        }
        let six = [0usize, 2, 3, 7, 11, 12];
        for a in six {
            for b in six {
                for c in six {
                    configs.push((vec![a, b, c], 2, 0));
                }
            }
        }
        // a few triples with 3 steps each
        for tri in [[2usize, 11, 7], [3, 12, 8], [0, 9, 2], [11, 11, 2], [7, 7, 7], [12, 3, 11], [8, SECTION_OP, SECTION_OP]] {
            configs.push((tri.to_vec(), 3, 0));
        }
    } else {
        // one 3-thread family in the quick tier: the iterator scripts
        for tri in [[2usize, 11, 7], [3, 12, 8], [0, 9, 2]] {
            configs.push((tri.to_vec(), 2, 0));
        }
    }
    let solo3 = Arc::new(solo_observations(3));
    // every configuration twice: shuttle tasks (exhaustive DFS at shuttle's scheduling points) and real OS threads
    // under the baton scheduler (all step interleavings); each in a pristine subprocess
    // the wp scheduler needs mprotect / SIGSEGV / the x86 trap flag to behave as on stock Linux: its canary is run
    // first; where it fails the wp passes are left out and the evidence says so (step-level schedulers still decide)
    let wp_available = match run_config("wp-canary", &[], 1) {
        Ok(v) if v.get("machinery").is_none() && v.get("panic").is_none() => true,
        other => {
            acc.notes.push(format!("wp scheduler unavailable on this machine (canary: {}); intra-call scheduling points are NOT explored in this run", match other { Ok(v) => v.to_string(), Err(e) => e }));
            false
        }
    };
    let mut jobs: Vec<(&'static str, Vec<usize>, usize, usize)> = Vec::new();
    for (sc, st, warm) in &configs {
        let warm = *warm;
        jobs.push(("shuttle", sc.clone(), *st, warm));
        // baton: interleavings grow as (k*steps)!/(steps!)^k; 3 threads x 3 steps (1680 each) is left to shuttle
        if sc.len() * st <= 6 || (t && sc.len() == 2) {
            jobs.push(("baton", sc.clone(), *st, warm));
        }
        if wp_available {
            jobs.push(("wp", sc.clone(), *st, warm));
        }
    }
    if wp_available {
        jobs.push(("wp-canary", vec![], 1, 0));
    }
    // When the subject does write into the shared objects, every wp configuration runs to its cap and the wall-clock
    // budget of the check ends before the job list does. The few configurations built for state inside the handles (warm
    // and section scripts) therefore come first, then the canary, then the 256 pairs.
    jobs.sort_by_key(|(mode, sc, _, _)| if sc.iter().any(|&o| o >= SECTION_OP) { 0 } else if *mode == "wp-canary" { 1 } else { 2 });
    let nconf = jobs.len();
    let sub = par_run(&jobs, &budget, |(mode, scripts, steps, warm), acc, _| {
        match run_config_w(mode, scripts, *steps, *warm) {
            Ok(v) if v.get("machinery").is_some() => {
                eprintln!("MACHINERY-ERROR: {} scheduler, scripts {:?} x {} steps: {}", mode, scripts, steps, v["machinery"]);
                std::process::exit(2);
            }
            Ok(v) if v.get("panic").is_none() => {
                if *mode == "wp-canary" {
                    acc.count("wp canary: lost updates found on a racy counter in the protected arena (must be > 0)", v["canary_lost_updates_found"].as_u64().unwrap_or(0));
                    acc.count("wp canary: memory scheduling points", v["canary_memory_points"].as_u64().unwrap_or(0));
                }
                if *mode == "wp" {
                    for ph in ["phase1", "phase2"] {
                        let w = &v["wp"][ph];
                        if w.is_null() {
                            continue;
                        }
                        acc.count(&format!("wp {}: memory scheduling points granted (stores into / watched loads of the shared objects)", ph), w["mem_points"].as_u64().unwrap_or(0));
                        acc.count(&format!("wp {}: executions abandoned (baton holder blocked / replay timeout)", ph), w["abandoned"].as_u64().unwrap_or(0));
                        if w["capped"].as_bool().unwrap_or(false) {
                            acc.notes.push(format!("wp {}: cap hit for scripts {:?} x {} steps after {} executions (lock-style blocking or a very large number of memory points); covered below the cap only", ph, scripts, steps, w["executions"]));
                        }
                    }
                    acc.count("wp: distinct locations of the shared objects stored to during queries (summed over configurations)", v["stores_into_shared_objects"].as_u64().unwrap_or(0));
                    acc.count("wp: faults outside any scheduled thread / in a stale region", v["unscheduled_faults"].as_u64().unwrap_or(0) + v["stale_faults"].as_u64().unwrap_or(0));
                    if scripts == &vec![9usize, 9] {
                        acc.sample(4, || json!({"scheduler": "wp", "threads": scripts.iter().map(|&i| OPS[i]).collect::<Vec<_>>(), "steps_per_thread": steps, "default_schedule": v["default_schedule"], "wp": v["wp"]}));
                    }
                }
                let n = v["schedules"].as_u64().unwrap_or(0);
                acc.states += n;
                acc.transitions += v["steps"].as_u64().unwrap_or(0);
                acc.observations += n * scripts.len() as u64;
                acc.outcome(h64(&(mode, scripts, steps, n)), true);
                acc.count(&format!("schedules explored [{}: {} threads x {} steps]", mode, scripts.len(), steps), n);
                if !v["mismatch"].is_null() {
                    let m = &v["mismatch"];
                    let thread = m["thread"].as_u64().unwrap_or(0) as usize;
                    let op = scripts.get(thread).copied().unwrap_or(0);
                    let mut case = m.clone();
                    case["mode"] = json!(mode);
                    case["warm"] = json!(warm);
                    case["wp_bound"] = json!(WP_BOUND.load(Ordering::Relaxed));
                    acc.violation(format!("schedule:{}:{}", mode, OPS[op].split(' ').next().unwrap_or("")), scripts.len() * 10 + steps, || {
                        (format!("[{}] thread {} running '{}' concurrently with {:?} observed {}, alone it observes {} (interleaving of steps: {})", mode, thread, OPS[op], scripts.iter().map(|&i| OPS[i]).collect::<Vec<_>>(), m["observed"], m["expected"], m["interleaving"]), case.clone())
                    });
                }
                if scripts == &vec![2usize, 11] {
                    acc.sample(2, || json!({"scheduler": mode, "threads": scripts.iter().map(|&i| OPS[i]).collect::<Vec<_>>(), "steps_per_thread": steps, "schedules": n, "oracle": "each thread's observations == the same script alone"}));
                }
            }
            Ok(v) => {
                let p = v["panic"].as_str().unwrap_or("").to_string();
                acc.violation(format!("panic:{}", panic_site(&p)), 0, || (format!("panic under the {} scheduler: {}", mode, p), json!({"kind":"sched","mode":mode,"scripts":scripts,"steps":steps})));
            }
            Err(e) => acc.violation(format!("config-process-died:{}", mode), 0, || (format!("{} {:?} x {}: {}", mode, scripts, steps, e), json!({"kind":"sched","mode":mode,"scripts":scripts,"steps":steps}))),
        }
    });
    acc.merge(sub);
    // (2b) history pass
    if !gate_failed {
        match guarded(|| {
            let mut a = Acc::new();
            history_pass(&mut a);
            a
        }) {
            Ok(a) => acc.merge(a),
            Err(p) => acc.violation(format!("panic:{}", panic_site(&p)), 0, || (format!("panic in the history pass: {}", p), json!({"kind":"history"}))),
        }
    }
    // (3) free-running pass (sampling; labelled; never deciding)
    let sh: &'static Shared = Box::leak(Box::new(build_shared()));
    let mut free_runs = 0u64;
    for nthreads in [2usize, 4, 8, 16] {
        if gate_failed {
            break;
        }
        let bad: Mutex<Option<String>> = Mutex::new(None);
        std::thread::scope(|s| {
            for ti in 0..nthreads {
                let (solo3, bad) = (&solo3, &bad);
                s.spawn(move || {
                    for round in 0..200 {
                        let op = (ti + round) % (SECTION_OP + 1);
                        let obs = run_script(op, 3, sh, &|| {});
                        if obs != solo3[op] {
                            *bad.lock().unwrap() = Some(format!("{} threads: '{}' observed {:?}", nthreads, OPS[op], obs));
                        }
                    }
                });
            }
        });
        free_runs += nthreads as u64 * 200;
        let found: Option<String> = bad.lock().unwrap().clone();
        if let Some(d) = found {
            acc.violation("free-running:differs-from-solo", 1, || (d.clone(), json!({"kind":"free-running","threads":nthreads})));
        }
    }
    acc.count("free-running script executions on 2/4/8/16 OS threads (sampling, not part of the exhaustive claim)", free_runs);
    if !gate_failed {
        contention_pass(&mut acc);
    }
    acc.sample(3, || json!({"type_table": table.iter().map(|(n, s, y)| json!({"type": n, "Send": s, "Sync": y})).collect::<Vec<_>>()}));
    let mut assumptions = vec![
        "scheduling points: shuttle / baton place them between API steps (before every call and every iterator step); the wp scheduler adds every store the subject executes into the shared objects (their pages are write-protected; the fault is the scheduling point) and, once a store was seen, every load of a stored-to location. On this tree the wp counters report how many such stores happen (0 = the shared objects are never written during queries, so interleavings inside one call cannot be observed by another thread and the step-level schedules are complete)".into(),
        "not intercepted by wp: the subject's own statics / thread-locals (they live in the data segment, which cannot be protected without stopping the harness itself); state kept there is reached by the history pass and the baton scheduler at call granularity only".into(),
        "shuttle's std-compatible thread::spawn / yield_now / join are the scheduling points; objects are rebuilt in every execution".into(),
    ];
    assumptions.extend(source_scan());
    let meta = RunMeta {
        prop: "C20",
        tier,
        level: "model_checking",
        rule: format!("type gate: Send and Sync of {} public handle / iterator / result types (run-time evaluated auto-trait table). Schedules: every configuration is explored three times, each time in a pristine subprocess: by shuttle's exhaustive DFS (tasks under shuttle's scheduler), by a baton scheduler over real OS threads (all interleavings of the steps; thread-locals behave as in production), and by the wp scheduler (real OS threads; the shared objects are built in an arena whose pages are then write-protected, so that every store of the subject into them faults and becomes a scheduling point inside the call, single-stepped with the x86 trap flag; when stores were seen a second phase also makes every load of a stored-to location a point; stateless DFS over harness points + memory points with preemption bound {}; the default schedule is run twice and must produce the identical grant sequence; a replayed prefix that does not fit is a hard machinery error); the threads share one mapper, one mapper-with-index, one parsed cache and one mapping; {} thread configurations: all {} ordered pairs of the 16 base scripts x 3 steps, the section script (uuid / summary / has_line_info / is_valid of two sections of the shared mapping) against itself and the mapping scripts, and the warm configurations (6 query kinds x {{mapper, cache}} x memo capacities C: a 1100-class handle first serves C distinct queries of the kind, then thread A re-asks the oldest three while thread B asks three new ones){}; a scheduling point before every API call and every iterator step; oracle: every thread observes exactly what its script observes alone. History pass: back-to-back queries on one shared cache / mapper (one thread, and two OS threads taking turns) for pairs of class names that collide under ten common 32-bit fingerprints, for a mapping of 70000 classes queried at index distances 65535 / 65536, and for one method with 33..401 ranges in non-ascending file order whose lines are asked in seven sequences (ascending, descending, alternating, hopping; hits only and hits mixed with misses). states = schedules (complete executions); transitions = steps executed; distinct = distinct (configuration, schedule count)", table.len(), if t { 3 } else { 2 }, nconf, BASE_OPS * BASE_OPS, if t { ", all unordered pairs x 5 steps, all triples over 6 scripts x 2 steps, six triples x 3 steps" } else { ", three 3-thread configurations x 2 steps" }),
        bounds: json!({"scripts": OPS.to_vec(), "configurations": nconf, "mapping": esc(MAPPING), "warm_capacities": WARM_CAPS.to_vec()}),
        assumptions,
        trusted_base: vec!["rustc/std (auto traits)".into(), "shuttle 0.9.3 DFS scheduler".into(), "pgmc/src/wp.rs (arena allocator, mprotect + SIGSEGV/SIGTRAP single-stepping, preemption-bounded DFS)".into(), "Linux mprotect / x86-64 trap flag semantics".into()],
    };
    finish(meta, acc, &budget, &|c| recheck(c))
}

pub fn recheck(case: &Value) -> Vec<String> {
    match case["kind"].as_str().unwrap_or("") {
        "auto-trait" => type_table().into_iter().filter(|(n, s, y)| Some(*n) == case["type"].as_str() && (!s || !y)).map(|(n, _, _)| format!("auto-trait:{}", n.replace(' ', "_"))).collect(),
        "sched" => {
            let scripts: Vec<usize> = case["scripts"].as_array().map(|a| a.iter().map(|x| x.as_u64().unwrap_or(0) as usize).collect()).unwrap_or_default();
            let steps = case["steps"].as_u64().unwrap_or(3) as usize;
            let mode = case["mode"].as_str().unwrap_or("shuttle");
            if let Some(b) = case["wp_bound"].as_u64() {
                WP_BOUND.store(b as usize, Ordering::Relaxed);
            }
            match run_config_w(mode, &scripts, steps, case["warm"].as_u64().unwrap_or(0) as usize) {
                Ok(v) => {
                    if let Some(p) = v.get("panic").and_then(|p| p.as_str()) {
                        vec![format!("panic:{}", panic_site(p))]
                    } else if !v["mismatch"].is_null() {
                        let thread = v["mismatch"]["thread"].as_u64().unwrap_or(0) as usize;
                        vec![format!("schedule:{}:{}", mode, OPS[scripts.get(thread).copied().unwrap_or(0)].split(' ').next().unwrap_or(""))]
                    } else {
                        vec![]
                    }
                }
                Err(_) => vec![format!("config-process-died:{}", mode)],
            }
        }
        "reuse-history" => super::hist::recheck(case),
        "history" => {
            let mut a = Acc::new();
            history_pass(&mut a);
            a.violations.keys().cloned().collect()
        }
        "contention" => {
            // sampling: try to reproduce a few times
            let mut sigs = Vec::new();
            for _ in 0..5 {
                let mut a = Acc::new();
                contention_pass(&mut a);
                sigs = a.violations.keys().cloned().collect();
                if !sigs.is_empty() {
                    break;
                }
            }
            sigs
        }
        "free-running" => {
            // sampling: try to reproduce a few times
            let sh: &'static Shared = Box::leak(Box::new(build_shared()));
            let solo = solo_observations(3);
            let n = case["threads"].as_u64().unwrap_or(4) as usize;
            let bad = std::sync::atomic::AtomicBool::new(false);
            for _ in 0..20 {
                std::thread::scope(|s| {
                    for ti in 0..n {
                        let (solo, bad) = (&solo, &bad);
                        s.spawn(move || {
                            for round in 0..200 {
                                let op = (ti + round) % (SECTION_OP + 1);
                                if run_script(op, 3, sh, &|| {}) != solo[op] {
                                    bad.store(true, Ordering::Relaxed);
                                }
                            }
                        });
                    }
                });
            }
            if bad.load(Ordering::Relaxed) {
                vec!["free-running:differs-from-solo".into()]
            } else {
                vec![]
            }
        }
        _ => vec![],
    }
}
