//! One entry per property: scopes and bounds per tier, the oracle, the replay.
use crate::fw::*;
use serde_json::Value;

pub mod c02;
pub mod c05;
pub mod c06;
pub mod c09;
pub mod c10;
pub mod c13;
pub mod c15;
pub mod c16;
pub mod c19;
pub mod c20;
pub mod e3;
pub mod e4;
pub mod e7;
pub mod hist;
pub mod mapmodel;

pub fn run(id: &str, tier: Tier) -> i32 {
    match id {
        "C01" | "C03" | "C04" => mapmodel::run(id, tier),
        "C02" => c02::run(tier),
        "C05" => c05::run(tier),
        "C06" => c06::run(tier),
        "C09" => c09::run(tier),
        "C10" => c10::run(tier),
        "C19" => c19::run(tier),
        "C07" => e3::run_c07(tier),
        "C08" => e3::run_c08(tier),
        "C17" => e3::run_c17(tier),
        "C16" => c16::run(tier),
        "C13" => c13::run(tier),
        "C15" => c15::run(tier),
        "C14" => e7::run_c14(tier),
        "C18" => e7::run_c18(tier),
        "C20" => c20::run(tier),
        "C11" => e4::run_c11(tier),
        "C12" => e4::run_c12(tier),
        _ => {
            eprintln!("unknown property {}", id);
            2
        }
    }
}

pub fn recheck(id: &str, case: &Value) -> Vec<String> {
    match id {
        "C01" | "C03" | "C04" => mapmodel::recheck(id, case),
        "C02" => c02::recheck(case),
        "C05" => c05::recheck(case),
        "C06" => c06::recheck(case),
        "C09" => c09::recheck(case),
        "C10" => c10::recheck(case),
        "C19" => c19::recheck(case),
        "C07" => e3::recheck_text(case),
        "C08" => e3::recheck_typed(case),
        "C17" => e3::recheck_rt(case),
        "C16" => c16::recheck(case),
        "C13" => c13::recheck(case),
        "C15" => c15::recheck(case),
        "C14" => e7::recheck_c14(case),
        "C18" => e7::recheck_c18(case),
        "C20" => c20::recheck(case),
        "C11" => e4::recheck_c11(case),
        "C12" => e4::recheck_c12(case),
        _ => vec![],
    }
}

pub fn replay(id: &str, path: &str) -> i32 {
    let txt = match std::fs::read_to_string(path) {
        Ok(t) => t,
        Err(e) => {
            eprintln!("cannot read {}: {}", path, e);
            return 2;
        }
    };
    let v: Value = match serde_json::from_str(&txt) {
        Ok(v) => v,
        Err(e) => {
            eprintln!("cannot parse {}: {}", path, e);
            return 2;
        }
    };
    let case = if v.get("case").is_some() { v["case"].clone() } else { v.clone() };
    if case["kind"] == "whole-check" {
        // the recorded violation is "the check's process is killed by the subject": run the check again
        let exe = std::env::current_exe().expect("exe");
        let tier = case["tier"].as_str().unwrap_or("quick").to_string();
        println!("replaying {}: running the whole {} check once more (the recorded violation is a call into the library that kills the process)", id, tier);
        let st = std::process::Command::new(exe).args(["check", id, &tier]).env_remove("PGMC_CHILD").status();
        return st.ok().and_then(|s| s.code()).unwrap_or(2);
    }
    println!("replaying {} case from {}", id, path);
    if let Some(t) = case.get("text").and_then(|t| t.as_str()) {
        println!("mapping text: {}", t);
    }
    println!("query:    {}", case.get("query").unwrap_or(&Value::Null));
    println!("expected: {}", case.get("expected").unwrap_or(&Value::Null));
    println!("recorded: {}", case.get("observed").unwrap_or(&Value::Null));
    let sigs = recheck(id, &case);
    if sigs.is_empty() {
        println!("REPLAY: property {} holds on this case (no violation reproduced)", id);
        0
    } else {
        for s in &sigs {
            println!("REPLAY: violation reproduced: sig={}", s);
        }
        println!("VIOLATION property={} replay={}", id, path);
        1
    }
}

pub fn internal(cmd: &str, args: &[String]) -> i32 {
    match cmd {
        "recheck-one" => {
            // `pgmc recheck-one <ID> <case.json>`: print one "SIG <sig>" line per reproduced signature
            let id = args.first().map(|s| s.as_str()).unwrap_or("");
            let txt = std::fs::read_to_string(args.get(1).map(|s| s.as_str()).unwrap_or("")).unwrap_or_default();
            let case: Value = serde_json::from_str(&txt).unwrap_or(Value::Null);
            for s in recheck(id, &case) {
                println!("SIG {}", s);
            }
            0
        }
        "scale-probe" => c13::scale_probe(args),
        "c14-worker" => e7::c14_worker(args),
        "c14-one" => e7::c14_one(args),
        "c18-worker" => e7::c18_worker(args),
        "c20-config" => c20::config_main(args),
        _ => {
            eprintln!("unknown command {}", cmd);
            2
        }
    }
}
