//! E7 "multiproc": C14 (cache serialisation is deterministic) and C18 (mapping UUID).
//! The driver launches the same deterministic enumeration in P separately started processes, each
//! under the getrandom shim with its own PGMC_HASH_SEED (so the iteration order of every hash
//! container is a harness-owned, replayable input) plus processes with the OS's own seed; every
//! process streams one 64-bit digest per state; the driver compares position-wise.
use crate::ast::*;
use crate::dec;
use crate::e1::*;
use crate::fw::*;
use crate::props::c02::corpus_files;
use crate::sha1;
use crate::subj::cur;
use serde_json::{json, Value};
use std::collections::HashSet;
use std::io::Write;

fn shim_path() -> Option<String> {
    let p = format!("{}/shim/getrandom_shim.so", verif_dir());
    if std::path::Path::new(&p).exists() {
        Some(p)
    } else {
        None
    }
}

fn scratch_dir() -> String {
    let d = format!("{}/target/scratch", verif_dir());
    let _ = std::fs::create_dir_all(&d);
    d
}

/// digest of the iteration order of a fixed 8-key HashSet: tells whether two processes really had different seeds
fn order_probe() -> u64 {
    let s: HashSet<&str> = ["a", "b", "c", "d", "e", "f", "g", "h"].into_iter().collect();
    h64(&s.iter().collect::<Vec<_>>())
}

// ---------------------------------------------------------------------------------------------
// C14

/// "wide" family: 2..=8 distinct classes / methods / argument strings, so that every hash container holds >= 6 keys
fn wide_family() -> ListSpace {
    let mut files = Vec::new();
    let names: Vec<S> = (0..8).map(|i| leak(&format!("n{}", i))).collect();
    let args: Vec<S> = (0..8).map(|i| leak(&format!("t.A{}", i))).collect();
    for n in 2..=8usize {
        for variant in 0..4usize {
            let mut f = Vec::new();
            for c in 0..n {
                f.push(class(leak(&format!("o.C{}", (c * 3 + variant) % n)), leak(&format!("c{}", (c * 5 + variant) % n))));
                if variant % 2 == 1 {
                    f.push(Line::SourceFile(leak(&format!("F{}.kt", c))));
                }
                for m in 0..n {
                    let r = if variant >= 2 { Some((1 + m as u64, 2 + m as u64)) } else { None };
                    f.push(method(r, if m % 3 == 2 { Some("x.Y") } else { None }, names[(m * 3) % n], args[(m * 5 + c) % n], if r.is_some() { Orig::SE(3, 4) } else { Orig::None }, names[(m + c) % n]));
                    // a duplicate (dedup set) every other method
                    if m % 2 == 0 {
                        f.push(method(r, None, names[(m * 3) % n], args[(m * 5 + c) % n], if r.is_some() { Orig::SE(3, 4) } else { Orig::None }, names[(m + c) % n]));
                    }
                }
            }
            files.push((f, Term::Lf));
        }
    }
    ListSpace { name: "wide family (>= 6 keys per hash container)".into(), note: "n = 2..=8 classes x n methods x n argument strings x 4 variants (sourceFile headers, ranges, duplicates)".into(), files, wide: false, chunk: Default::default() }
}

fn c14_spaces(thorough: bool) -> Vec<Box<dyn Space>> {
    vec![Box::new(ms_b(if thorough { 5 } else { 4 }, true)), Box::new(ms_c()), Box::new(ms_d(thorough)), Box::new(wide_family()), Box::new(crate::families::scale_family(false)), Box::new(crate::families::unicode_family()), Box::new(crate::families::huge_family(if thorough { 400_000 } else { 150_000 })), Box::new(crate::families::alignment_family()), Box::new(crate::families::big_multiclass_family())]
}

/// the deterministic enumeration shared by all processes
fn c14_enumerate(thorough: bool, f: &mut dyn FnMut(&[Line], Term)) {
    let b = Budget::new(24 * 3600);
    for s in c14_spaces(thorough) {
        for it in 0..s.n_items() {
            s.run_item(it, &b, f);
        }
    }
    for (_, bytes) in corpus_files() {
        // corpus files are fed as one noise-free pseudo-line each (raw bytes)
        let l = [Line::Noise(leak_bytes(&bytes))];
        f(&l, Term::LfNoFinal);
    }
}

/// what one process observes for one input: (digest of the bytes, flags)
/// flags: 1 = two consecutive writes differ, 2 = a write from a concurrent thread differs, 4 = length != header-implied length
fn c14_observe(bytes: &[u8], with_threads: bool, with_failed: bool) -> (Vec<u8>, u64) {
    let a = cur::write_cache(bytes).expect("write");
    let b = cur::write_cache(bytes).expect("write");
    let mut flags = 0u64;
    if a != b {
        flags |= 1;
    }
    if with_threads {
        let (x, y) = std::thread::scope(|s| {
            let h1 = s.spawn(|| cur::write_cache(bytes).expect("write"));
            let h2 = s.spawn(|| cur::write_cache(bytes).expect("write"));
            (h1.join().unwrap(), h2.join().unwrap())
        });
        if x != a || y != a {
            flags |= 2;
        }
    }
    match dec::header(&a) {
        Some(h) if dec::layout(&h).total == a.len() as u64 => {}
        _ => flags |= 4,
    }
    // the same bytes at every address residue modulo 8 ("allocation addresses")
    if with_threads || bytes.len() < 2000 && bytes.iter().any(|b| *b >= 0x80) {
        let mut store = vec![0u8; bytes.len() + 16];
        let base = store.as_ptr() as usize;
        for r in 0..8usize {
            let off = (8 - base % 8) % 8 + r;
            store[off..off + bytes.len()].copy_from_slice(bytes);
            let x = cur::write_cache(&store[off..off + bytes.len()]).expect("write");
            if x != a {
                flags |= 8;
            }
        }
    }
    // history: a write that FAILED part-way (the sink refuses everything after k bytes) on this thread, then the
    // same mapping written again - the bytes must not depend on what the failed call left behind
    if with_failed {
        for k in [0usize, 24, a.len() / 2, a.len().saturating_sub(1)] {
            struct FailAfter(usize, usize);
            impl std::io::Write for FailAfter {
                fn write(&mut self, buf: &[u8]) -> std::io::Result<usize> {
                    if self.1 + buf.len() > self.0 {
                        let take = self.0 - self.1;
                        if take == 0 {
                            return Err(std::io::Error::new(std::io::ErrorKind::Other, "sink full"));
                        }
                        self.1 += take;
                        return Ok(take);
                    }
                    self.1 += buf.len();
                    Ok(buf.len())
                }
                fn flush(&mut self) -> std::io::Result<()> {
                    Ok(())
                }
            }
            let mapping = cur::ProguardMapping::new(bytes);
            let _ = cur::ProguardCache::write(&mapping, &mut FailAfter(k, 0));
            let c = cur::write_cache(bytes).expect("write");
            if c != a {
                flags |= 16;
            }
        }
    }
    // the std sinks a caller would really hand in: the bytes that arrive are the bytes a Vec receives (BufWriter with
    // its default, a tiny and a 4 KiB buffer around a Vec; a Cursor; a LineWriter)
    if with_failed || a.len() > 8000 {
        use std::io::Write;
        let mapping = cur::ProguardMapping::new(bytes);
        let mut outs: Vec<Vec<u8>> = Vec::new();
        for cap in [0usize, 1, 16, 4096] {
            let mut bw = if cap == 0 { std::io::BufWriter::new(Vec::new()) } else { std::io::BufWriter::with_capacity(cap, Vec::new()) };
            let ok = cur::ProguardCache::write(&mapping, &mut bw).is_ok() && bw.flush().is_ok();
            outs.push(if ok { bw.into_inner().unwrap_or_default() } else { Vec::new() });
        }
        let mut cur_sink = std::io::Cursor::new(Vec::new());
        outs.push(if cur::ProguardCache::write(&mapping, &mut cur_sink).is_ok() { cur_sink.into_inner() } else { Vec::new() });
        let mut lw = std::io::LineWriter::new(Vec::new());
        let ok = cur::ProguardCache::write(&mapping, &mut lw).is_ok() && lw.flush().is_ok();
        outs.push(if ok { lw.into_inner().unwrap_or_default() } else { Vec::new() });
        if outs.iter().any(|o| *o != a) {
            flags |= 32;
        }
    }
    (a, flags)
}

const THREAD_STRIDE: u64 = 64;
const FAILED_STRIDE: u64 = 4;

/// worker: `pgmc c14-worker <quick|thorough> <outfile>`: (digest, flags) per state, preceded by the order probe
fn maybe_pin() {
    if std::env::var_os("PGMC_PIN_ONE_CPU").is_some() {
        // SAFETY: plain libc call on this process; failure is ignored (the process then simply is not pinned)
        unsafe {
            let mut set: libc::cpu_set_t = std::mem::zeroed();
            libc::CPU_SET(0, &mut set);
            let _ = libc::sched_setaffinity(0, std::mem::size_of::<libc::cpu_set_t>(), &set);
        }
    }
}

pub fn c14_worker(args: &[String]) -> i32 {
    maybe_pin();
    let thorough = args.first().map(|s| s == "thorough").unwrap_or(false);
    let out = args.get(1).cloned().unwrap_or_default();
    let mut w = std::io::BufWriter::new(std::fs::File::create(&out).expect("create out"));
    let probe = order_probe();
    w.write_all(&probe.to_le_bytes()).unwrap();
    let mut bytes = Vec::new();
    let mut n = 0u64;
    c14_enumerate(thorough, &mut |lines, term| {
        print_file_into(lines, term, &mut bytes);
        let (a, flags) = c14_observe(&bytes, n % THREAD_STRIDE == 0, n % FAILED_STRIDE == 0);
        w.write_all(&h64(&a).to_le_bytes()).unwrap();
        w.write_all(&flags.to_le_bytes()).unwrap();
        n += 1;
    });
    w.flush().unwrap();
    println!("c14-worker wrote {} digests, order probe {:016x}", n, probe);
    0
}

/// `pgmc c14-one <case.json>`: print "<flags> <hex of the cache bytes>" for one state
pub fn c14_one(args: &[String]) -> i32 {
    maybe_pin();
    let txt = std::fs::read_to_string(args.first().map(|s| s.as_str()).unwrap_or("")).unwrap_or_default();
    let v: Value = serde_json::from_str(&txt).unwrap_or(Value::Null);
    let case = if v.get("case").is_some() { v["case"].clone() } else { v };
    let (lines, term) = file_from_json(&case);
    let bytes = print_file(&lines, term);
    let (a, flags) = c14_observe(&bytes, true, true);
    println!("{} {}", flags, hex(&a));
    0
}

fn spawn_worker(cmd: &str, tier: Tier, out: &str, seed: Option<u64>) -> std::process::Child {
    let exe = std::env::current_exe().expect("exe");
    let mut c = std::process::Command::new(exe);
    c.args([cmd, tier.name(), out]).env("PGMC_CHILD", "1").stdout(std::process::Stdio::null());
    // one of the processes may use a single CPU only ("different processes": another core count / affinity / quota)
    if seed == Some(2) {
        c.env("PGMC_PIN_ONE_CPU", "1");
    } else {
        c.env_remove("PGMC_PIN_ONE_CPU");
    }
    if let (Some(s), Some(shim)) = (seed, shim_path()) {
        c.env("LD_PRELOAD", shim).env("PGMC_HASH_SEED", s.to_string());
    } else {
        c.env_remove("LD_PRELOAD").env_remove("PGMC_HASH_SEED");
    }
    c.spawn().expect("spawn worker")
}

fn flag_sigs(flags: u64) -> Vec<&'static str> {
    let mut v = Vec::new();
    // which observation exposes it (consecutive writes, concurrent threads, another process) depends on the
    // history of hash keys in the process; the finding is the same: the bytes are not a function of the mapping
    if flags & 3 != 0 {
        v.push("bytes-not-a-function-of-the-mapping");
    }
    if flags & 8 != 0 {
        v.push("bytes-depend-on-the-buffer-address");
    }
    if flags & 4 != 0 {
        v.push("length:differs-from-header");
    }
    if flags & 16 != 0 {
        v.push("bytes-depend-on-an-earlier-failed-write");
    }
    if flags & 32 != 0 {
        v.push("bytes-depend-on-the-std-sink");
    }
    v
}

pub fn run_c14(tier: Tier) -> i32 {
    let t = tier.thorough();
    let budget = Budget::new(if t { 14 * 60 } else { 50 });
    let mut acc = Acc::new();
    let scratch = scratch_dir();
    let have_shim = shim_path().is_some();
    // separately started processes: owned seeds + 2 with the OS's own seed; every process performs, per input,
    // two consecutive writes, (every 64th input) two writes from concurrent threads, and the length check
    let nseeds: u64 = if t { 24 } else { 8 };
    let mut procs: Vec<(String, String, std::process::Child)> = Vec::new();
    for s in 1..=nseeds {
        let out = format!("{}/c14_{}_{}.bin", scratch, std::process::id(), s);
        procs.push((format!("seed {}", s), out.clone(), spawn_worker("c14-worker", tier, &out, if have_shim { Some(s) } else { None })));
    }
    for k in 0..2 {
        let out = format!("{}/c14_{}_os{}.bin", scratch, std::process::id(), k);
        procs.push((format!("OS seed #{}", k), out.clone(), spawn_worker("c14-worker", tier, &out, None)));
    }
    // meanwhile: enumerate the states here (no writes) so that a mismatching index can be turned into a case
    let mut states: Vec<(Vec<Line>, Term)> = Vec::new();
    c14_enumerate(t, &mut |lines, term| {
        if matches!(lines.first(), Some(Line::Class { .. })) && lines.len() >= 4 {
            acc.sample(2, || json!({"mapping": esc(&print_file(lines, term)), "writes": "per process: 2 consecutive (+ 2 from concurrent threads for every 64th input); one process per seed"}));
        }
        states.push((lines.to_vec(), term));
    });
    acc.states = states.len() as u64;
    let mut probes: Vec<u64> = Vec::new();
    let mut nprocs = 0u64;
    let mut base: Option<(String, Vec<u64>)> = None;
    for (label, out, mut child) in procs {
        let st = child.wait().expect("wait");
        if !st.success() {
            eprintln!("MACHINERY-ERROR: C14 worker ({}) failed: {:?}", label, st);
            return 2;
        }
        let data = std::fs::read(&out).expect("read digests");
        let _ = std::fs::remove_file(&out);
        let words: Vec<u64> = data.chunks_exact(8).map(|c| u64::from_le_bytes(c.try_into().unwrap())).collect();
        probes.push(words[0]);
        let digests: Vec<u64> = words[1..].iter().step_by(2).copied().collect();
        let flags: Vec<u64> = words[2..].iter().step_by(2).copied().collect();
        if digests.len() != states.len() {
            eprintln!("MACHINERY-ERROR: C14 worker ({}) enumerated {} states, the driver {}", label, digests.len(), states.len());
            return 2;
        }
        nprocs += 1;
        // 2 consecutive writes per state + thread writes
        acc.transitions += 2 * digests.len() as u64 + 2 * (digests.len() as u64 / THREAD_STRIDE);
        acc.observations += digests.len() as u64 + digests.len() as u64 / THREAD_STRIDE + 1;
        let mkcase = |i: usize| {
            let (lines, term) = &states[i];
            let mut c = file_to_json(lines, *term);
            c["oracle"] = json!("C14");
            c["process"] = json!(label);
            c["state_index"] = json!(i);
            c
        };
        for (i, f) in flags.iter().enumerate() {
            for sig in flag_sigs(*f) {
                let m = print_file(&states[i].0, states[i].1);
                acc.violation(sig, m.len(), || (format!("process with {}: {} for state #{} (flags {}: 1 = consecutive writes differ, 2 = concurrent-thread writes differ, 4 = length, 8 = differs when the mapping bytes sit at another address modulo 8, 16 = differs after a write that failed part-way on the same thread)", label, sig, i, f), mkcase(i)));
            }
        }
        match &base {
            None => {
                for d in &digests {
                    acc.outcome(*d, true);
                }
                base = Some((label.clone(), digests));
            }
            Some((bl, bd)) => {
                for (i, (a, b)) in bd.iter().zip(digests.iter()).enumerate() {
                    if a != b {
                        let m = print_file(&states[i].0, states[i].1);
                        acc.violation("bytes-not-a-function-of-the-mapping", m.len(), || (format!("the process with {} wrote different bytes than the process with {} for state #{}", label, bl, i), mkcase(i)));
                    }
                }
            }
        }
    }
    let distinct_orders = probes.iter().collect::<HashSet<_>>().len();
    acc.count(&format!("separately started processes (of which {} with harness-owned seeds)", if have_shim { nseeds } else { 0 }), nprocs);
    acc.count("distinct hash iteration orders observed among the processes (8-key probe set)", distinct_orders as u64);
    if !have_shim {
        acc.notes.push("getrandom shim not built: all processes ran with OS seeds (still different per process, but not replayable)".into());
    }
    let meta = RunMeta {
        prop: "C14",
        tier,
        level: "exploration",
        rule: format!("(for every 4th input and every cache above 8 kB also: the bytes arriving in BufWriter (default / 1 / 16 / 4096-byte buffer), Cursor and LineWriter sinks equal the bytes a Vec receives) inputs (incl. one 17 MiB mapping of 24000 classes; the process with seed 2 is pinned to a single CPU) enumerated exhaustively (MS-B depth <= {}, MS-C, MS-D, wide family with >= 6 keys per hash container, corpus files); every input is written in {} separately started processes with harness-owned hash seeds (getrandom shim) and 2 processes with OS seeds; in every process: two consecutive writes, for every 64th input two more writes from concurrent threads and eight writes with the mapping bytes placed at every address residue modulo 8 (also for every input containing non-ASCII bytes), for every 4th input four writes that FAIL part-way (the sink refuses everything after 0 / 24 / len/2 / len-1 bytes) each followed by a complete write on the same thread, and the length check against the header. All byte strings for one input must be identical. evaluations = inputs; distinct = distinct cache files", if t { 5 } else { 4 }, nseeds),
        bounds: json!({"scopes": c14_spaces(t).iter().map(|s| { let mut d = s.describe(); if d.get("alphabet").is_some() { d["alphabet"] = json!("see pgmc/src/e1.rs"); } d }).collect::<Vec<_>>(), "processes": nprocs, "owned_seeds": nseeds, "distinct_iteration_orders": distinct_orders}),
        assumptions: vec!["the 2^128 seed space is not enumerable: seeds are a finite harness-owned set; exhaustive is the input dimension".into(), "std RandomState draws its per-thread keys through getrandom (interposed by the shim) and increments them for every new table".into()],
        trusted_base: vec!["rustc/std".into(), "getrandom shim /verif/shim/getrandom_shim.c".into()],
    };
    let evals = acc.states;
    let code = finish(meta, acc, &budget, &|c| recheck_c14(c));
    patch_evaluations("C14", evals);
    code
}

/// re-execute one state in 8 fresh processes with the owned seeds 1..=8
pub fn recheck_c14(case: &Value) -> Vec<String> {
    let path = format!("{}/c14_case_{}.json", scratch_dir(), std::process::id());
    std::fs::write(&path, case.to_string()).expect("write case");
    let exe = std::env::current_exe().expect("exe");
    let mut outs: Vec<(u64, String)> = Vec::new();
    for seed in 1..=8u64 {
        let mut c = std::process::Command::new(&exe);
        c.args(["c14-one", &path]).env("PGMC_CHILD", "1");
        if seed == 2 {
            c.env("PGMC_PIN_ONE_CPU", "1");
        } else {
            c.env_remove("PGMC_PIN_ONE_CPU");
        }
        if let Some(shim) = shim_path() {
            c.env("LD_PRELOAD", shim).env("PGMC_HASH_SEED", seed.to_string());
        }
        if let Ok(o) = c.output() {
            let t = String::from_utf8_lossy(&o.stdout).trim().to_string();
            if let Some((f, h)) = t.split_once(' ') {
                outs.push((f.parse().unwrap_or(0), h.to_string()));
            }
        }
    }
    let _ = std::fs::remove_file(&path);
    let mut sigs: Vec<String> = Vec::new();
    for (f, _) in &outs {
        for s in flag_sigs(*f) {
            if !sigs.iter().any(|x| x == s) {
                sigs.push(s.to_string());
            }
        }
    }
    if outs.iter().any(|(_, h)| *h != outs[0].1) && !sigs.iter().any(|x| x == "bytes-not-a-function-of-the-mapping") {
        sigs.push("bytes-not-a-function-of-the-mapping".into());
    }
    sigs
}

fn patch_evaluations(prop: &str, evals: u64) {
    let path = format!("{}/evidence/{}.json", verif_dir(), prop);
    if let Ok(txt) = std::fs::read_to_string(&path) {
        if let Ok(mut v) = serde_json::from_str::<Value>(&txt) {
            v["coverage"]["evaluations"] = json!(evals);
            let _ = std::fs::write(&path, serde_json::to_string_pretty(&v).unwrap() + "\n");
        }
    }
}

// ---------------------------------------------------------------------------------------------
// C18

fn c18_inputs() -> Vec<Vec<u8>> {
    let mut v: Vec<Vec<u8>> = Vec::new();
    // all byte strings of length <= 4 over {a, LF, CR, 00, ff, space, '#', EF, BB, BF} (incl. the UTF-8 byte order mark)
    let syms = [b'a', b'\n', b'\r', 0u8, 0xffu8, b' ', b'#', 0xef, 0xbb, 0xbf];
    let mut frontier: Vec<Vec<u8>> = vec![vec![]];
    v.push(vec![]);
    for _ in 0..4 {
        let mut nx = Vec::new();
        for f in &frontier {
            for s in syms {
                let mut g = f.clone();
                g.push(s);
                nx.push(g);
            }
        }
        v.extend(nx.iter().cloned());
        frontier = nx;
    }
    // every length 0..=200 of a fixed pattern (all SHA-1 padding boundaries), then around multiples of 64 up to 4 KiB
    let pat = |n: usize| -> Vec<u8> { (0..n).map(|i| (i * 31 + 7) as u8).collect() };
    for n in 0..=200 {
        v.push(pat(n));
    }
    for k in 4..=64usize {
        for d in [-9i64, -8, -1, 0, 1] {
            v.push(pat((k as i64 * 64 + d) as usize));
        }
    }
    v.push(pat(1 << 20));
    // affix family: a small mapping and the small corpus files with every "invisible" prefix and suffix a
    // normalising implementation might strip (byte order marks, blanks, line terminators, NUL)
    let affixes: [&[u8]; 12] = [b"\xef\xbb\xbf", b"\xff\xfe", b"\xfe\xff", b" ", b"\t", b"\n", b"\r", b"\r\n", b"\n\n", b"\0", b"#", b"\xef\xbb"];
    let mut bases: Vec<Vec<u8>> = vec![b"p.A -> a:\n    1:2:void p():3:4 -> m\n".to_vec(), b"x".to_vec(), vec![]];
    // corpus files, LF and CRLF variants, with and without a final newline
    for (_, b) in corpus_files() {
        if b.len() > 100_000 {
            v.push(b.clone());
            continue;
        }
        let crlf: Vec<u8> = b.iter().flat_map(|&c| if c == b'\n' { vec![b'\r', b'\n'] } else { vec![c] }).collect();
        let mut trimmed = b.clone();
        while trimmed.last() == Some(&b'\n') {
            trimmed.pop();
        }
        v.push(crlf);
        v.push(trimmed);
        bases.push(b.clone());
        v.push(b);
    }
    for b in &bases {
        for a in affixes {
            let mut p = a.to_vec();
            p.extend_from_slice(b);
            v.push(p);
            let mut q = b.clone();
            q.extend_from_slice(a);
            v.push(q);
        }
    }
    v
}

/// "depends on nothing but the bytes": the same address and length with different content, consecutively
/// (a memo keyed by pointer/length, or by a stale hash, answers the second call with the first one's identifier);
/// returns the indices of inputs whose identifier, computed in the reused buffer, is wrong
fn c18_same_address(inputs: &[Vec<u8>]) -> Vec<usize> {
    let max = inputs.iter().filter(|i| i.len() <= 8192).map(|i| i.len()).max().unwrap_or(0);
    let mut buf = vec![0u8; max];
    let mut order: Vec<usize> = (0..inputs.len()).filter(|i| inputs[*i].len() <= 8192).collect();
    order.sort_by_key(|i| inputs[*i].len()); // equal lengths become neighbours
    let mut bad = Vec::new();
    for i in order {
        let n = inputs[i].len();
        buf[..n].copy_from_slice(&inputs[i]);
        if uuid_of(&buf[..n]) != sha1::proguard_uuid(&inputs[i]) {
            bad.push(i);
        }
    }
    bad
}

fn uuid_of(bytes: &[u8]) -> [u8; 16] {
    *cur::ProguardMapping::new(bytes).uuid().as_bytes()
}

/// operation sequences on one value: uuid() of a parent, then of every section / clone of it (a cached identifier
/// must not travel with the value); returns descriptions of wrong answers
fn c18_sequences() -> Vec<String> {
    let mut bad = Vec::new();
    let base: Vec<u8> = b"p.A -> a:\n    1:2:void p():3:4 -> m\nq.B -> b:\n".to_vec();
    for first_parent in [true, false] {
        let parent = cur::ProguardMapping::new(&base);
        if first_parent {
            let _ = parent.uuid();
        }
        for i in 0..=base.len() {
            for j in [i, (i + 1).min(base.len()), (i + 7).min(base.len()), base.len()] {
                if j < i {
                    continue;
                }
                let sec = parent.section(i..j);
                let exp = sha1::proguard_uuid(&base[i..j]);
                if *sec.uuid().as_bytes() != exp {
                    bad.push(format!("section({}..{}).uuid() after parent.uuid()={} is wrong", i, j, first_parent));
                }
                // a second call on the same value, a clone, and a nested section
                if *sec.uuid().as_bytes() != exp || *sec.clone().uuid().as_bytes() != exp {
                    bad.push(format!("second uuid() / clone of section({}..{}) is wrong", i, j));
                }
                if j > i {
                    let inner = sec.section(0..(j - i) / 2);
                    if *inner.uuid().as_bytes() != sha1::proguard_uuid(&base[i..i + (j - i) / 2]) {
                        bad.push(format!("nested section of section({}..{}) is wrong", i, j));
                    }
                }
            }
        }
        if *parent.uuid().as_bytes() != sha1::proguard_uuid(&base) || *parent.clone().uuid().as_bytes() != sha1::proguard_uuid(&base) {
            bad.push("parent uuid after its sections is wrong".into());
        }
    }
    bad.truncate(5);
    bad
}

/// large inputs (>= 64 KiB) that agree in length and in every cheap checksum a memo might use as its key
/// (same multiset of bytes / words: blocks swapped), hashed back to back
fn c18_permuted_large() -> Vec<String> {
    let mut bad = Vec::new();
    for n in [65536usize, 65544, 131072, (1 << 20) + 8] {
        let base: Vec<u8> = (0..n).map(|i| (i as u32).wrapping_mul(2654435761).to_le_bytes()[1]).collect();
        let mut variants: Vec<Vec<u8>> = vec![base.clone()];
        for (a, b, w) in [(0usize, 8usize, 8usize), (16, n - 8, 8), (4, 12, 4), (1, 2, 1), (n / 2, n / 2 + 64, 64), (0, n - 4096, 4096)] {
            let mut v = base.clone();
            for k in 0..w {
                v.swap(a + k, b + k);
            }
            if v != base {
                variants.push(v);
            }
        }
        // base again at the end: an entry cached for a variant must not answer for the base
        variants.push(base.clone());
        for (k, v) in variants.iter().enumerate() {
            if uuid_of(v) != sha1::proguard_uuid(v) {
                bad.push(format!("large input of {} bytes, variant #{} (blocks swapped), hashed right after the previous variant: wrong identifier", n, k));
            }
        }
    }
    bad.truncate(5);
    bad
}

/// worker: `pgmc c18-worker <tier> <outfile>`: first action = two racing threads on the lazily built
/// namespace global, then all inputs; writes one line per mismatch and a final digest
pub fn c18_worker(args: &[String]) -> i32 {
    let out = args.get(1).cloned().unwrap_or_default();
    let inputs = c18_inputs();
    let mut report = String::new();
    // race on first use
    let first = b"p.A -> a:\n".to_vec();
    let barrier = std::sync::Barrier::new(2);
    let (x, y) = std::thread::scope(|s| {
        let h1 = s.spawn(|| {
            barrier.wait();
            uuid_of(&first)
        });
        let h2 = s.spawn(|| {
            barrier.wait();
            uuid_of(&first)
        });
        (h1.join().unwrap(), h2.join().unwrap())
    });
    let exp = sha1::proguard_uuid(&first);
    if x != exp || y != exp {
        report.push_str(&format!("MISMATCH race {} {} {}\n", hex(&x), hex(&y), hex(&exp)));
    }
    let mut all = Vec::new();
    for (i, inp) in inputs.iter().enumerate() {
        let u = uuid_of(inp);
        all.extend_from_slice(&u);
        if u != sha1::proguard_uuid(inp) {
            report.push_str(&format!("MISMATCH input {}\n", i));
        }
    }
    for i in c18_same_address(&inputs) {
        report.push_str(&format!("MISMATCH reuse {}\n", i));
    }
    for d in c18_sequences().into_iter().chain(c18_permuted_large()) {
        report.push_str(&format!("MISMATCH seq {}\n", d));
    }
    report.push_str(&format!("DIGEST {:016x} {}\n", h64(&all), inputs.len()));
    std::fs::write(&out, report).expect("write report");
    0
}

fn c18_check(inp: &[u8], acc: &mut Acc) {
    acc.states += 1;
    acc.transitions += 1;
    acc.observations += 1;
    let exp = sha1::proguard_uuid(inp);
    match guarded(|| uuid_of(inp)) {
        Ok(u) => {
            acc.outcome(h64(&u), true);
            if u != exp {
                acc.violation("uuid:differs-from-rfc4122-v5", inp.len(), || {
                    let shown = if inp.len() > 200 { format!("{} bytes", inp.len()) } else { esc(inp) };
                    (format!("uuid({}) = {} but v5(v5(DNS,'guardsquare.com'), bytes) = {}", shown, hex(&u), hex(&exp)), json!({"kind":"uuid","bytes_hex": if inp.len() <= 4096 { hex(inp) } else { String::new() }, "len": inp.len(), "expected": hex(&exp), "observed": hex(&u)}))
                });
            }
        }
        Err(p) => acc.violation(format!("panic:{}", panic_site(&p)), inp.len(), || (p.clone(), json!({"kind":"uuid","bytes_hex":hex(&inp[..inp.len().min(4096)]),"len":inp.len()}))),
    }
}

pub fn run_c18(tier: Tier) -> i32 {
    let t = tier.thorough();
    let budget = Budget::new(if t { 14 * 60 } else { 50 });
    sha1::self_test();
    let mut acc = Acc::new();
    let scratch = scratch_dir();
    let nprocs: u64 = if t { 16 } else { 6 };
    let mut procs = Vec::new();
    for s in 1..=nprocs {
        let out = format!("{}/c18_{}_{}.txt", scratch, std::process::id(), s);
        procs.push((s, out.clone(), spawn_worker("c18-worker", tier, &out, if s <= nprocs - 2 { Some(s) } else { None })));
    }
    let inputs = c18_inputs();
    let mut all = Vec::new();
    for inp in &inputs {
        c18_check(inp, &mut acc);
        all.extend_from_slice(&uuid_of(inp));
    }
    for i in c18_same_address(&inputs) {
        acc.violation("uuid:depends-on-address-or-history", inputs[i].len(), || (format!("input #{} ({} bytes) copied into a reused buffer (same address and length as the previous input, different content) got a wrong identifier", i, inputs[i].len()), json!({"kind":"uuid-reuse","index":i})));
    }
    acc.transitions += inputs.len() as u64;
    acc.observations += inputs.len() as u64;
    for d in c18_sequences() {
        acc.violation("uuid:travels-with-the-value", 1, || (d.clone(), json!({"kind":"uuid-seq"})));
    }
    for d in c18_permuted_large() {
        acc.violation("uuid:depends-on-address-or-history", 1 << 16, || (d.clone(), json!({"kind":"uuid-seq"})));
    }
    acc.states += 2;
    acc.observations += 600;
    // equal files get equal identifiers; LF vs CRLF variants get different ones (nothing is normalised)
    acc.sample(3, || json!({"input": "p.A -> a:\\n", "uuid": hex(&uuid_of(b"p.A -> a:\n")), "independent_sha1_v5": hex(&sha1::proguard_uuid(b"p.A -> a:\n"))}));
    acc.sample(3, || json!({"input": "(empty)", "uuid": hex(&uuid_of(b""))}));
    let my_digest = format!("{:016x}", h64(&all));
    for (s, out, mut child) in procs {
        let st = child.wait().expect("wait");
        let rep = std::fs::read_to_string(&out).unwrap_or_default();
        let _ = std::fs::remove_file(&out);
        if !st.success() || rep.is_empty() {
            eprintln!("MACHINERY-ERROR: C18 worker {} failed: {:?}", s, st);
            return 2;
        }
        acc.transitions += inputs.len() as u64;
        acc.observations += inputs.len() as u64;
        for l in rep.lines() {
            if l.starts_with("MISMATCH race") {
                acc.violation("uuid:race-on-first-use", 1, || (format!("process {}: two threads racing on the first uuid() call: {}", s, l), json!({"kind":"uuid-race"})));
            } else if let Some(d) = l.strip_prefix("MISMATCH seq ") {
                let sig = if d.starts_with("large input") { "uuid:depends-on-address-or-history" } else { "uuid:travels-with-the-value" };
                acc.violation(sig, 1, || (format!("process {}: {}", s, d), json!({"kind":"uuid-seq"})));
            } else if let Some(i) = l.strip_prefix("MISMATCH reuse ") {
                let i: usize = i.parse().unwrap_or(0);
                acc.violation("uuid:depends-on-address-or-history", inputs[i].len(), || (format!("process {}: input #{} in a reused buffer got a wrong identifier", s, i), json!({"kind":"uuid-reuse","index":i})));
            } else if let Some(i) = l.strip_prefix("MISMATCH input ") {
                let i: usize = i.parse().unwrap_or(0);
                acc.violation("uuid:differs-from-rfc4122-v5", inputs[i].len(), || (format!("process {}: input #{} differs from the independent computation", s, i), json!({"kind":"uuid","bytes_hex":hex(&inputs[i][..inputs[i].len().min(4096)]),"len":inputs[i].len()})));
            } else if let Some(d) = l.strip_prefix("DIGEST ") {
                if d.split(' ').next() != Some(&my_digest) {
                    acc.violation("uuid:cross-process-differs", 1, || (format!("process {} computed a different set of identifiers than the driver process", s), json!({"kind":"uuid-process","process":s})));
                }
            }
        }
    }
    acc.count("separately started processes (each starting with two threads racing on the first uuid() call)", nprocs);
    let n = inputs.len();
    let meta = RunMeta {
        prop: "C18",
        tier,
        level: "exploration",
        rule: format!("{} inputs: all byte strings of length <= 4 over {{a, LF, CR, 00, ff, space, #, EF, BB, BF}}; a small mapping, 'x', the empty file and the small corpus files with each of 12 invisible prefixes / suffixes (byte order marks, blanks, line terminators, NUL); every input once more through one reused buffer (same address and length, different content, consecutively); operation sequences (uuid of a parent, then of every section(i..j), clone and nested section of it, in both orders); inputs of 64 KiB..1 MiB that differ only by swapped blocks, hashed back to back; every length 0..=200 of a fixed pattern and lengths around every multiple of 64 up to 4 KiB (all SHA-1 padding boundaries); 1 MiB; the corpus files as they are, with CRLF, and without final newline. Each compared with an independent SHA-1 / RFC 4122 v5 computation (validated against the FIPS 180 vectors at start-up), in this process and in {} separately started processes (different hash seeds), each of which first lets two threads race on the lazily built namespace. distinct = distinct identifiers", n, nprocs),
        bounds: json!({"inputs": n, "processes": nprocs}),
        assumptions: vec!["the function delegates to uuid / sha1_smol; this is the weakest use of the technique in the set (small exhaustive input space, no state)".into()],
        trusted_base: vec!["rustc/std".into(), "independent SHA-1 / UUIDv5 in pgmc/src/sha1.rs".into()],
    };
    let code = finish(meta, acc, &budget, &|c| recheck_c18(c));
    patch_evaluations("C18", n as u64);
    code
}

pub fn recheck_c18(case: &Value) -> Vec<String> {
    let mut acc = Acc::new();
    match case["kind"].as_str().unwrap_or("") {
        "uuid" => {
            let b = unhex(case["bytes_hex"].as_str().unwrap_or(""));
            let len = case["len"].as_u64().unwrap_or(0) as usize;
            if b.len() == len {
                c18_check(&b, &mut acc);
            } else {
                // large input: re-run the whole input list
                for inp in c18_inputs() {
                    c18_check(&inp, &mut acc);
                }
            }
        }
        "uuid-seq" => {
            let mut v = Vec::new();
            if !c18_sequences().is_empty() {
                v.push("uuid:travels-with-the-value".to_string());
            }
            if !c18_permuted_large().is_empty() {
                v.push("uuid:depends-on-address-or-history".to_string());
            }
            return v;
        }
        "uuid-reuse" => {
            if !c18_same_address(&c18_inputs()).is_empty() {
                return vec!["uuid:depends-on-address-or-history".into()];
            }
            return vec![];
        }
        "uuid-race" | "uuid-process" => {
            // re-execute in a fresh process (the namespace global of this process is already built)
            let out = format!("{}/c18_re_{}.txt", scratch_dir(), std::process::id());
            let mut child = spawn_worker("c18-worker", Tier::Quick, &out, Some(case["process"].as_u64().unwrap_or(1)));
            let _ = child.wait();
            let rep = std::fs::read_to_string(&out).unwrap_or_default();
            let _ = std::fs::remove_file(&out);
            let mut all = Vec::new();
            for inp in c18_inputs() {
                all.extend_from_slice(&uuid_of(&inp));
            }
            let mine = format!("{:016x}", h64(&all));
            let mut sigs = Vec::new();
            for l in rep.lines() {
                if l.starts_with("MISMATCH race") {
                    sigs.push("uuid:race-on-first-use".to_string());
                }
                if let Some(d) = l.strip_prefix("DIGEST ") {
                    if d.split(' ').next() != Some(&mine) {
                        sigs.push("uuid:cross-process-differs".to_string());
                    }
                }
            }
            return sigs;
        }
        _ => {}
    }
    acc.violations.keys().cloned().collect()
}
