//! C19: file-level metadata answers equal a fold over the complete record stream.
use crate::fw::*;
use crate::subj::cur::{ProguardMapping, ProguardRecord};
use serde_json::{json, Value};

pub const LINES: [&str; 15] = [
    "      # {\"id\":\"com.android.tools.r8.synthesized\"}",
    "p.A -> a:",
    "    int f -> g",
    "    1:2:void p():3:4 -> m",
    "    void q() -> n",
    "    0:0:void z() -> m",
    "# compiler: R8",
    "# compiler: X",
    "# compiler",
    "# compiler_version: 1",
    "# min_api: 24",
    "# min_api: x",
    "# min_api: 4294967296",
    "garbage",
    "",
];

#[derive(Debug, PartialEq, Eq, Hash, Clone)]
struct Meta {
    has_line_info: bool,
    is_valid: bool,
    classes: usize,
    methods: usize,
    compiler: Option<String>,
    compiler_version: Option<String>,
    min_api: Option<u32>,
}

/// the independent fold over the record stream (the statement defines the answers as functions of the stream)
fn fold(bytes: &[u8]) -> Meta {
    let mut m = Meta { has_line_info: false, is_valid: false, classes: 0, methods: 0, compiler: None, compiler_version: None, min_api: None };
    let mut seen_class_in_first_50 = false;
    for (i, item) in ProguardMapping::new(bytes).iter().enumerate() {
        let in_first_50 = i < 50;
        match item {
            Ok(ProguardRecord::Class { .. }) => {
                m.classes += 1;
                if in_first_50 {
                    seen_class_in_first_50 = true;
                }
            }
            Ok(ProguardRecord::Method { line_mapping, .. }) => {
                m.methods += 1;
                if line_mapping.is_some() {
                    m.has_line_info = true;
                }
                if in_first_50 && seen_class_in_first_50 {
                    m.is_valid = true;
                }
            }
            Ok(ProguardRecord::Field { .. }) => {
                if in_first_50 && seen_class_in_first_50 {
                    m.is_valid = true;
                }
            }
            Ok(ProguardRecord::Header { key, value }) => match key {
                "compiler" => m.compiler = value.map(|s| s.to_string()),
                "compiler_version" => m.compiler_version = value.map(|s| s.to_string()),
                "min_api" => m.min_api = value.and_then(|v| v.parse::<u32>().ok()),
                _ => {}
            },
            Err(_) => {}
        }
    }
    m
}

fn observe(bytes: &[u8]) -> Meta {
    let mp = ProguardMapping::new(bytes);
    let s = mp.summary();
    Meta {
        has_line_info: mp.has_line_info(),
        is_valid: mp.is_valid(),
        classes: s.class_count(),
        methods: s.method_count(),
        compiler: s.compiler().map(|x| x.to_string()),
        compiler_version: s.compiler_version().map(|x| x.to_string()),
        min_api: s.min_api(),
    }
}

fn check(bytes: &[u8], acc: &mut Acc) {
    acc.states += 1;
    acc.observations += 7;
    let r = guarded(|| (fold(bytes), observe(bytes)));
    match r {
        Ok((exp, got)) => {
            acc.outcome(h64(&exp), exp.has_line_info || exp.is_valid || exp.compiler.is_some() || exp.min_api.is_some());
            if exp != got {
                let field = if exp.has_line_info != got.has_line_info {
                    "has_line_info"
                } else if exp.is_valid != got.is_valid {
                    "is_valid"
                } else if exp.classes != got.classes {
                    "class_count"
                } else if exp.methods != got.methods {
                    "method_count"
                } else if exp.compiler != got.compiler {
                    "compiler"
                } else if exp.compiler_version != got.compiler_version {
                    "compiler_version"
                } else {
                    "min_api"
                };
                acc.violation(format!("meta:{}", field), bytes.len(), || {
                    let shown = if bytes.len() > 400 { format!("{}... ({} bytes)", esc(&bytes[..400]), bytes.len()) } else { esc(bytes) };
                    (format!("{}: fold over the record stream says {:?}, the API says {:?} for {}", field, exp, got, shown), json!({"kind":"bytes","text":esc(bytes),"expected":format!("{:?}", exp),"observed":format!("{:?}", got)}))
                });
            }
        }
        Err(p) => acc.violation(format!("panic:{}", panic_site(&p)), bytes.len(), || (p.clone(), json!({"kind":"bytes","text":esc(bytes)}))),
    }
}

/// operation sequences through `section()`: the metadata of every section(i..j) must be the fold over exactly
/// those bytes, whatever was asked of the parent before (nothing cached may travel with the value)
fn sections_pass(acc: &mut Acc) {
    let sources: [&[u8]; 3] = [
        b"# note:    1:1:void m() -> a\np.A -> a:\n        2:2:void n() -> b\n# min_api: 24\n",
        b"p.A -> a:\n    void q() -> n\n# compiler: R8\n    1:2:void p():3:4 -> m\n",
        b"garbage\n# compiler\np.B -> b:\n    int f -> g\n",
    ];
    for src in sources {
        for ask_parent_first in [true, false] {
            let parent = ProguardMapping::new(src);
            if ask_parent_first {
                let _ = (parent.has_line_info(), parent.is_valid(), parent.summary().class_count());
            }
            for i in 0..=src.len() {
                for j in i..=src.len() {
                    acc.states += 1;
                    acc.observations += 7;
                    let sec = parent.section(i..j);
                    let s = sec.summary();
                    let got = Meta {
                        has_line_info: sec.has_line_info(),
                        is_valid: sec.is_valid(),
                        classes: s.class_count(),
                        methods: s.method_count(),
                        compiler: s.compiler().map(|x| x.to_string()),
                        compiler_version: s.compiler_version().map(|x| x.to_string()),
                        min_api: s.min_api(),
                    };
                    let exp = fold(&src[i..j]);
                    if got != exp {
                        acc.violation("meta:section", j - i, || (format!("section({}..{}) of {:?} (parent asked first: {}): fold over those bytes says {:?}, the API says {:?}", i, j, esc(src), ask_parent_first, exp, got), json!({"kind":"sections"})));
                    }
                }
            }
            // and the parent afterwards
            let got = observe(src);
            if got != fold(src) {
                acc.violation("meta:section", src.len(), || ("parent metadata wrong after sections".into(), json!({"kind":"sections"})));
            }
        }
    }
    acc.count("section(i..j) metadata checks", 1);
}

fn dfs(buf: &mut Vec<u8>, left: usize, term: &[u8], acc: &mut Acc, budget: &Budget) {
    acc.transitions += 1;
    check(buf, acc);
    // the same file without its final terminator
    if !term.is_empty() && buf.ends_with(term) && !buf.is_empty() {
        let n = buf.len() - term.len();
        check(&buf[..n], acc);
    }
    if left == 0 || budget.exceeded() {
        return;
    }
    for l in LINES {
        let n = buf.len();
        buf.extend_from_slice(l.as_bytes());
        buf.extend_from_slice(term);
        dfs(buf, left - 1, term, acc, budget);
        buf.truncate(n);
    }
}

fn positional() -> Vec<Vec<u8>> {
    let mut v = Vec::new();
    let pair = "p.A -> a:\n    1:2:void p():3:4 -> m\n";
    let pair_nolines = "p.A -> a:\n    void p() -> m\n";
    // k leading noise / header / class-only lines before the first class+member pair
    for k in 0..=52usize {
        for lead in ["garbage\n", "# compiler: R8\n", "p.Z -> z:\n", "\n", "    int f -> g\n", "   \n", "\t\n", "    \n"] {
            for tail in [pair, pair_nolines] {
                let mut f = lead.repeat(k);
                f.push_str(tail);
                v.push(f.clone().into_bytes());
                // a class line among the first 50, the member only after the 50th item
                let mut g = String::from("p.Y -> y:\n");
                g.push_str(&lead.repeat(k));
                g.push_str("    void late() -> l\n");
                v.push(g.into_bytes());
            }
        }
    }
    // the first line-mapped method after n unmapped ones, after error lines, as the last line without newline
    for n in [0usize, 1, 49, 50, 51, 1000, 20000] {
        for sep in ["", "garbage\n", "\n"] {
            let mut f = String::from("p.A -> a:\n");
            for i in 0..n {
                f.push_str(&format!("    void u{}() -> u\n", i));
                if i % 97 == 0 {
                    f.push_str(sep);
                }
            }
            let nomap = f.clone();
            f.push_str("    7:8:void mapped() -> m");
            v.push(f.clone().into_bytes());
            f.push('\n');
            v.push(f.clone().into_bytes());
            f.push_str("# compiler: late\n# min_api: 7\n# compiler_version\n");
            v.push(f.into_bytes());
            v.push(nomap.into_bytes());
        }
    }
    // header values and original lines outside the main alphabet: min_api values that are almost numbers; methods whose
    // only line mapping points at original line 0 (R8 writes these for synthesized code)
    for val in ["21x", "21.5", "0x15", "21 ", " 21", "021", "4294967295", "-1", "", "2 1", "21\t", "1e3", "\u{661}"] {
        for tail in ["", "# min_api: 7\n", "p.A -> a:\n    void p() -> m\n"] {
            for head in ["", "# min_api: 9\n"] {
                v.push(format!("{}# min_api: {}\n{}", head, val, tail).into_bytes());
                v.push(format!("{}# compiler_version: {}\n# compiler: {}\n{}", head, val, val, tail).into_bytes());
            }
        }
    }
    for m in ["    4294967296:4294967297:void z():1:2 -> m\n", "    1:4294967296:void z() -> m\n", "    18446744073709551615:18446744073709551615:void z():7 -> m\n", "    1:2:void z():0 -> m\n", "    1:2:void z():0:0 -> m\n", "    1:2:void z():0:5 -> m\n", "    0:65535:void z():0:0 -> m\n", "    1:1:void z():0:0 -> m\n    void y() -> n\n", "    void y() -> n\n    3:4:void z():0 -> m\n"] {
        v.push(format!("p.A -> a:\n{}", m).into_bytes());
        v.push(format!("p.A -> a:\n{}p.B -> b:\n    void q() -> q\n", m).into_bytes());
    }
    // the 50-item window behind a class line: the class, then j indented R8 comment lines (error items) and
    // k - j member-less class lines in every arrangement of the comments at the front / middle / end, then the first member
    for k in 44..=54usize {
        for j in 0..=3usize {
            for place in 0..3usize {
                let comment = "      # {\"id\":\"com.android.tools.r8.synthesized\"}\n";
                let filler = "p.Z -> z:\n";
                let mut items: Vec<&str> = vec![filler; k - j.min(k)];
                let at = match place {
                    0 => 0,
                    1 => items.len() / 2,
                    _ => items.len(),
                };
                for _ in 0..j.min(k) {
                    items.insert(at, comment);
                }
                let mut f = String::from("p.Y -> y:\n");
                for it in items {
                    f.push_str(it);
                }
                f.push_str("    void late() -> l\n");
                v.push(f.into_bytes());
            }
        }
    }
    // a single line-mapped method whose line straddles a multiple of B at every cut position (an implementation
    // that scans the file in blocks of B bytes would cut it in two), for B in {4096, 65536, 2^20}; everything before
    // and after it are 32-byte lines of unmapped methods
    let filler = "    void unmapped_method_xx() -> u\n"; // 34 bytes
    let mapped = "    1:1:void m() -> c\n";
    for b in [4096usize, 65536, 1 << 20] {
        for d in 0..=mapped.len() {
            // the mapped line starts at offset b - d
            let head = "p.A -> a:\n";
            let mut f = String::with_capacity(b + 4096);
            f.push_str(head);
            let target = b - d;
            while f.len() + filler.len() <= target {
                f.push_str(filler);
            }
            // pad to the exact offset with a header line of the right length ("# " + x.. + "\n")
            let gap = target - f.len();
            if gap == 1 {
                f.push('\n');
            } else if gap >= 2 {
                f.push('#');
                for _ in 0..gap - 2 {
                    f.push('x');
                }
                f.push('\n');
            }
            f.push_str(mapped);
            for _ in 0..40 {
                f.push_str(filler);
            }
            v.push(f.into_bytes());
        }
    }
    // the 50-item window measured in BYTES: few but long items in front of / inside the first class+member pair
    // (an implementation that looks at a byte prefix instead of the first 50 items answers differently)
    for width in [100usize, 300, 1000, 5000, 70000] {
        for k in [1usize, 10, 30, 48, 49, 50] {
            let mut f = String::new();
            for _ in 0..k {
                f.push_str("# ");
                for _ in 0..width {
                    f.push('h');
                }
                f.push('\n');
            }
            f.push_str("p.A -> a:\n    void m() -> x\n");
            v.push(f.into_bytes());
        }
        // a class line followed by ONE long member line (valid), and by one long line that is an error as a whole
        let long_args: String = std::iter::repeat("int,").take(width / 4).collect::<String>() + "int";
        v.push(format!("p.A -> a:\n    void m({}) -> x\n", long_args).into_bytes());
        let mut bad = format!("p.A -> a:\n    void m({}", long_args).into_bytes();
        bad.extend_from_slice(b"\xff) -> x\n    void late() -> y\n");
        v.push(bad);
    }
    v
}

enum Work {
    Sections,
    Seq(Vec<usize>, usize, &'static [u8]),
    Pos(usize, usize),
    Joined(usize, usize, usize),
}

pub fn run(tier: Tier) -> i32 {
    let t = tier.thorough();
    let budget = Budget::new(if t { 14 * 60 } else { 50 });
    let depth = if t { 7 } else { 6 };
    let pos = positional();
    let mut work = Vec::new();
    for term in [&b"\n"[..], b"\r\n"] {
        if term == b"\r\n" && !t {
            continue;
        }
        work.push(Work::Seq(vec![], 1, term));
        for a in 0..LINES.len() {
            for b in 0..LINES.len() {
                work.push(Work::Seq(vec![a, b], depth, term));
            }
        }
    }
    // records sharing a physical line (the record stream is not line based: a class record ends at its ':', a
    // sourceFile header at its '}'): (i) all lines joined without any terminator, (ii) the first two lines joined,
    // the rest LF-terminated
    for a in 0..LINES.len() {
        for b in 0..LINES.len() {
            work.push(Work::Seq(vec![a, b], depth - 1, b""));
            work.push(Work::Joined(a, b, depth - 2));
        }
    }
    let mut i = 0;
    while i < pos.len() {
        work.push(Work::Pos(i, (i + 16).min(pos.len())));
        i += 16;
    }
    let npos = pos.len();
    work.push(Work::Sections);
    let acc = par_run(&work, &budget, |w, acc, budget| match w {
        Work::Sections => {
            if let Err(p) = guarded(|| sections_pass(acc)) {
                acc.violation(format!("panic:{}", panic_site(&p)), 0, || (p.clone(), json!({"kind":"sections"})));
            }
        }
        Work::Seq(first, depth, term) => {
            let mut buf = Vec::new();
            for &i in first {
                buf.extend_from_slice(LINES[i].as_bytes());
                buf.extend_from_slice(term);
            }
            dfs(&mut buf, depth - first.len().min(*depth), term, acc, budget);
            acc.sample(1, || json!({"file": esc(&buf), "checked": "has_line_info, is_valid, summary (5 fields) vs fold over iter()"}));
        }
        Work::Joined(a, b, depth) => {
            let mut buf = Vec::new();
            buf.extend_from_slice(LINES[*a].as_bytes());
            buf.extend_from_slice(LINES[*b].as_bytes());
            buf.push(b'\n');
            dfs(&mut buf, *depth, b"\n", acc, budget);
        }
        Work::Pos(a, b) => {
            for f in &pos[*a..*b] {
                acc.transitions += 1;
                check(f, acc);
                acc.count("positional-family files", 1);
            }
        }
    });
    let meta = RunMeta {
        prop: "C19",
        tier,
        level: "model_checking",
        rule: format!("every file of <= {} lines over the 15-line alphabet (indented R8 comment, class, field, method with / without usable range, 0:0 method, compiler / compiler_version / min_api headers incl. valueless, non-numeric and 2^32, garbage, blank), each also without its final newline (thorough: also with CRLF); the same files with all lines joined without any terminator (one line less) and with only the first two lines joined (records sharing a physical line); positional families ({} files): k = 0..=52 leading noise / header / class / blank / whitespace-only / field lines before the first class+member pair, a class line followed by k lines and then the first member, the first line-mapped method after n in {{0,1,49,50,51,1000,20000}} unmapped ones with error / blank lines interspersed, with and without final newline, headers after everything; min_api / compiler values that are almost numbers (21x, 21.5, 0x15, blanks, leading zero, Arabic digit), methods whose only line mapping points at original line 0; a single line-mapped method placed so that it straddles a multiple of 4096 / 65536 / 2^20 at every cut position. few long items (headers of 100..70000 bytes, k = 1..50 of them; one member line with 100..70000 bytes of arguments, valid and invalid as a whole) in front of / inside the first class+member pair; the 50-item window behind a class line filled with 44..54 items of which 0..3 are indented R8 comment lines; the metadata of every section(i..j) of three small files, with and without asking the parent first. Oracle: independent fold over the items of iter(). distinct = distinct metadata tuples", depth, npos),
        bounds: json!({"depth": depth, "alphabet": LINES, "positional_files": npos}),
        assumptions: vec!["the statement defines the answers as functions of the record stream; the stream itself is the subject of C05/C06".into()],
        trusted_base: vec!["rustc/std".into(), "the fold in pgmc/src/props/c19.rs".into()],
    };
    finish(meta, acc, &budget, &|c| recheck(c))
}

pub fn recheck(case: &Value) -> Vec<String> {
    let mut acc = Acc::new();
    if case["kind"] == "sections" {
        sections_pass(&mut acc);
        return acc.violations.keys().cloned().collect();
    }
    check(&unesc(case["text"].as_str().unwrap_or("")), &mut acc);
    acc.violations.keys().cloned().collect()
}
