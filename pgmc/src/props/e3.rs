//! E3 "tracespace": C07 (text trace remapping), C08 (typed trace remapping), C17 (print -> parse round trip).
use crate::ast::*;
use crate::fw::*;
use crate::model::{MFrame, Model};
use crate::subj::{cur, OTrace, Subj};
use serde_json::{json, Value};

// ---------------------------------------------------------------------------------------------
// mappings used by the trace spaces

pub fn mapping_m1() -> Vec<Line> {
    vec![
        class("com.example.Err", "a.E"),
        class("com.example.Main", "a.b"),
        Line::SourceFile("S.kt"),
        method(Some((1, 3)), Some("com.example.Util"), "inlined", "", Orig::SE(10, 12), "m"),
        method(Some((1, 3)), None, "outer", "", Orig::S(20), "m"),
        method(Some((5, 5)), None, "other", "", Orig::None, "m"),
        method(None, None, "nolines", "", Orig::None, "n"),
        // a class without sourceFile header: resolving frames keep the file of the input frame
        class("com.example.NoFile", "a.c"),
        method(Some((1, 3)), None, "run", "", Orig::SE(10, 12), "r"),
        // a kept class: class and method names are not renamed, lines and file are
        class("k.Kept", "k.Kept"),
        Line::SourceFile("K.kt"),
        method(Some((1, 3)), None, "run", "", Orig::SE(10, 12), "run"),
    ]
}
/// knows none of the names the traces use
pub fn mapping_m2() -> Vec<Line> {
    vec![class("q.Other", "q.o"), method(Some((1, 3)), None, "x", "", Orig::None, "y"), class("q.E", "a.EE"), class("q.B", "a")]
}
/// M4 (= M1 + R8 metadata comments) plus a class whose method `k` is a 40-deep inline group at line 1
pub fn mapping_m3() -> Vec<Line> {
    let mut v = mapping_m4();
    v.push(class("deep.Deep", "d.D"));
    for i in 0..40u64 {
        v.push(method(Some((1, 1)), if i % 2 == 0 { Some("deep.Lib") } else { None }, leak(&format!("lvl{}", i)), "", Orig::S(100 + i), "k"));
    }
    v
}
/// M1 with R8's rewriteFrame / synthesized / outline comments below the member lines they would belong to (indented:
/// not records of the documented grammar, so the answers are those of M1)
pub fn mapping_m4() -> Vec<Line> {
    let mut v = Vec::new();
    for l in mapping_m1() {
        v.push(l);
        if let Line::Method { name, .. } = l {
            match name {
                "inlined" => v.push(Line::Noise(b"      # {\"id\":\"com.android.tools.r8.rewriteFrame\",\"conditions\":[\"throws(Lcom/example/Err;)\"],\"actions\":[\"removeInnerFrames(1)\"]}")),
                "outer" => {
                    v.push(Line::Noise(b"      # {\"id\":\"com.android.tools.r8.rewriteFrame\",\"conditions\":[\"throws(La/E;)\"],\"actions\":[\"removeInnerFrames(2)\"]}"));
                    v.push(Line::Noise(b"      # {\"id\":\"com.android.tools.r8.synthesized\"}"));
                }
                "other" => v.push(Line::Noise(b"      # {\"id\":\"com.android.tools.r8.outline\"}")),
                "run" => v.push(Line::Noise(b"    # {\"id\":\"com.android.tools.r8.outlineCallsite\",\"positions\":{\"1\":2},\"outline\":\"La/b;m()V\"}")),
                _ => {}
            }
        }
    }
    v
}
/// one method with 20 ascending disjoint ranges (entry i: lines 4i+1..4i+2) and, in the middle, one range that encloses
/// the next three (40..54): the lines 43, 44, 47, 48, 51, 52 resolve through the enclosing entry only
pub fn mapping_m5() -> Vec<Line> {
    let mut v = vec![class("s.Run", "run")];
    for i in 0..20u64 {
        if i == 10 {
            v.push(method(Some((40, 54)), None, "odd", "", Orig::SE(7000, 7014), "s"));
        }
        v.push(method(Some((4 * i + 1, 4 * i + 2)), None, leak(&format!("o{}", i)), "", Orig::SE(1000 + 4 * i, 1001 + 4 * i), "s"));
    }
    v
}
/// by-parameters entries whose obfuscated names / parameter strings are in prefix relation with a '$' continuation
/// (the tuple order (name, params) and the order of the concatenation "name(params)" differ)
pub fn mapping_m6() -> Vec<Line> {
    vec![
        class("p.Pre", "a.p"),
        method(None, None, "load", "Config", Orig::None, "a"),
        method(None, None, "loadDefault", "Config", Orig::None, "a$default"),
        method(None, None, "withBuilder", "Config$Builder", Orig::None, "a"),
        method(None, None, "plain", "", Orig::None, "a"),
        method(None, None, "defaultWithBuilder", "Config$Builder", Orig::None, "a$default"),
        method(None, None, "dash", "Config", Orig::None, "a-x"),
    ]
}
pub fn mappings() -> Vec<(&'static str, Vec<Line>)> {
    vec![("empty", vec![]), ("M1 (inline group + sourceFile)", mapping_m1()), ("M2 (knows none of the names)", mapping_m2()), ("M4 (M1 + R8 metadata comments)", mapping_m4()), ("M3 (M4 + 40-deep inline group)", mapping_m3()), ("M5 (sorted run + enclosing range)", mapping_m5()), ("M6 (by-params names in prefix relation)", mapping_m6())]
}

// ---------------------------------------------------------------------------------------------
// R12: the text model, with an independent line classifier

/// split like `str::lines`: a piece ends at LF; one CR directly before that LF is dropped; a final piece
/// without LF is kept as it is (a lone final CR stays)
fn split_lines(text: &str) -> Vec<&str> {
    let mut v = Vec::new();
    let mut rest = text;
    while !rest.is_empty() {
        match rest.find('\n') {
            Some(i) => {
                let piece = &rest[..i];
                v.push(piece.strip_suffix('\r').unwrap_or(piece));
                rest = &rest[i + 1..];
            }
            None => {
                v.push(rest);
                rest = "";
            }
        }
    }
    v
}

/// "Class" or "Class: message"; the class part contains no space
fn throwable_shape(line: &str) -> Option<(&str, Option<&str>)> {
    let t = line.trim();
    let (c, m) = match t.find(": ") {
        Some(i) => (&t[..i], Some(&t[i + 2..])),
        None => (t, None),
    };
    if c.contains(' ') {
        None
    } else {
        Some((c, m))
    }
}

/// "at <class>.<method>(<file>:<line>)" with surrounding whitespace
fn frame_shape(line: &str) -> Option<(&str, &str, &str, usize)> {
    let t = line.trim();
    let inner = t.strip_prefix("at ")?;
    if !t.ends_with(')') || t.len() < 4 {
        return None;
    }
    let inner = &inner[..inner.len() - 1];
    let open = inner.find('(')?;
    let (qual, loc) = (&inner[..open], &inner[open + 1..]);
    let dot = qual.rfind('.')?;
    let colon = loc.find(':')?;
    let n: usize = loc[colon + 1..].parse().ok()?;
    Some((&qual[..dot], &qual[dot + 1..], &loc[..colon], n))
}

fn push_throwable(out: &mut String, prefix: &str, class: &str, msg: Option<&str>) {
    out.push_str(prefix);
    out.push_str(class);
    if let Some(m) = msg {
        out.push_str(": ");
        out.push_str(m);
    }
    out.push('\n');
}

fn push_frames(out: &mut String, frames: &[MFrame<'_>]) {
    for f in frames {
        out.push_str(&format!("    at {}.{}({}:{})\n", f.class, f.method, f.file.unwrap_or("<unknown>"), f.line));
    }
}

fn frame_out<'a>(model: &'a Model, line: &'a str, fr: &mut Vec<MFrame<'a>>, out: &mut String) -> bool {
    let Some((c, m, f, n)) = frame_shape(line) else { return false };
    model.frames(c, m, n as u64, Some(f), fr);
    if fr.is_empty() {
        out.push_str(line);
        out.push('\n');
    } else {
        push_frames(out, fr);
    }
    fr.clear();
    true
}

pub fn model_text<'a>(model: &'a Model, text: &'a str) -> String {
    let mut out = String::new();
    let mut fr: Vec<MFrame<'a>> = Vec::new();
    for (i, line) in split_lines(text).into_iter().enumerate() {
        if i == 0 {
            if let Some((c, m)) = throwable_shape(line) {
                match model.class(c) {
                    Some(orig) => push_throwable(&mut out, "", orig, m),
                    None => {
                        out.push_str(line);
                        out.push('\n');
                    }
                }
                continue;
            }
        }
        if frame_out(model, line, &mut fr, &mut out) {
            continue;
        }
        if i > 0 {
            if let Some((c, m)) = line.strip_prefix("Caused by: ").and_then(throwable_shape) {
                if let Some(orig) = model.class(c) {
                    push_throwable(&mut out, "Caused by: ", orig, m);
                    continue;
                }
            }
        }
        out.push_str(line);
        out.push('\n');
    }
    out
}

pub const SHAPES: [&str; 41] = [
    "a.E: boom",
    "a.E",
    "x.Unknown: msg",
    "x.Unknown",
    "a.E: nested: colon at a.b.m(F.java:2)",
    "    at a.b.m(F.java:2)",
    "\tat a.b.m(F.java:5)",
    "    at a.b.m(F.java:2)  ",
    "    at a.b.zz(F.java:2)",
    "    at x.Unknown.m(F.java:2)",
    "    at a.b.m(F.java:99)",
    "    at a.b.n(Native Method)",
    "    at a.b.n(Unknown Source)",
    "    at a.c.r(Unknown Source:2)",
    // same class, method and line as the shape before, another file (the class has no sourceFile header: the file is the frame's own)
    "    at a.c.r(G.java:2)",
    // two colons inside the parentheses: "2:5" is not a line number, so this is not a frame line
    "    at a.b.m(F.java:2:5)",
    // a frame of a kept class (names unchanged, line and file remapped)
    "\tat k.Kept.run(F.java:2)",
    // a known throwable without message and with trailing blanks (trimmed like every line); the same behind the prefix
    "a.E  ",
    "Caused by: a.E\t",
    // a known throwable whose message ends in a colon
    "a.E: usage:",
    "Caused by: a.E: inner",
    "Caused by: x.Unknown",
    "  Caused by: a.E: indented",
    "    ... 3 more",
    "",
    "at x(y:1)",
    "\u{e9} \u{fc}n\u{ef}: \u{e7}\u{f6}d\u{e9}",
    "    at a.b.n(F.java:7)",
    "Caused by: a.E",
    "caused by: a.E: lower case",
    "Caused by:  a.E: two blanks",
    // reading I4: the classifier trims like str::trim (Unicode White_Space), as both implementations do
    "\u{a0}\u{a0}at a.b.m(F.java:2)",
    "\u{3000}at a.b.m(F.java:5)\u{2028}",
    "\u{a0}a.E: nbsp",
    "    at app//a.b.m(F.java:2)",
    "    at java.base/x.Unknown.m(F.java:2)",
    // other decorations Java and Android put into traces: none of them is a throwable-behind-"Caused by: " or a frame
    "\tSuppressed: a.E: s",
    "Suppressed: a.E",
    "[CIRCULAR REFERENCE: a.E: c]",
    "Exception in thread \"main\" a.E: t",
    "E/AndroidRuntime(123): at a.b.m(F.java:2)",
];

/// long lines (beyond any 1 KiB guard): appended as extra shapes to texts of <= 2 other lines
pub fn long_shapes() -> Vec<String> {
    let long = "m".repeat(1100);
    vec![
        format!("a.E: {}", long),
        format!("Caused by: a.E: {}", long),
        format!("    at a.b.m({}.java:2)", long),
        format!("    at x.Unknown.{}(F.java:2)", long),
        format!("{} 70000-byte noise", "z".repeat(70000)),
    ]
}
pub const TEXT_TERMS: [(&str, &str, bool); 3] = [("LF", "\n", true), ("CRLF", "\r\n", true), ("LF-nofinal", "\n", false)];

struct Built {
    label: &'static str,
    lines: Vec<Line>,
    bytes: Vec<u8>,
    model: Model,
    /// the "mapper" subject of this mapping is the one built WITH the parameter index (every second mapping):
    /// by-line answers, text and typed traces must not depend on that flag
    param_mapper: bool,
}

fn build_all() -> Vec<Built> {
    mappings()
        .into_iter()
        .enumerate()
        .map(|(i, (label, lines))| {
            let bytes = print_file(&lines, Term::Lf);
            let model = Model::fold(&lines);
            Built { label, lines, bytes, model, param_mapper: i % 2 == 1 }
        })
        .collect()
}

fn with_both<R>(b: &Built, ab: &mut Aligned, f: impl FnOnce(&dyn Subj, &dyn Subj) -> R) -> R {
    cur::with_subjects(&b.bytes, ab, |m, mp, c, _| if b.param_mapper { f(mp, c) } else { f(m, c) }).expect("trace-space mappings build")
}

fn check_text(b: &Built, text: &str, mapper: &dyn Subj, cache: &dyn Subj, acc: &mut Acc) {
    acc.states += 1;
    let exp = model_text(&b.model, text);
    acc.outcome(h64(&exp), exp != split_lines(text).iter().map(|l| format!("{}\n", l)).collect::<String>());
    for s in [mapper, cache] {
        acc.observations += 1;
        acc.transitions += 1;
        let got = guarded(|| s.remap_stacktrace(text));
        let case = |g: String| json!({"kind":"text","mapping":b.label,"mapping_text":esc(&b.bytes),"text":text,"subject":s.label(),"expected":exp,"observed":g});
        match got {
            Ok(Ok(g)) => {
                if g != exp {
                    // name the first differing output line's kind
                    let kind = first_diff_kind(&exp, &g);
                    acc.violation(format!("text:{}:{}", s.label(), kind), text.len(), || (format!("remap_stacktrace({:?}) with mapping {}: expected {:?} got {:?}", text, b.label, exp, g), case(g.clone())));
                }
            }
            Ok(Err(e)) => acc.violation(format!("text:{}:error", s.label()), text.len(), || (format!("remap_stacktrace returned Err({})", e), case(e.clone()))),
            Err(p) => acc.violation(format!("panic:{}", panic_site(&p)), text.len(), || (p.clone(), case(p.clone()))),
        }
    }
}

fn first_diff_kind(exp: &str, got: &str) -> &'static str {
    let (e, g): (Vec<&str>, Vec<&str>) = (exp.split('\n').collect(), got.split('\n').collect());
    for i in 0..e.len().max(g.len()) {
        let (a, b) = (e.get(i), g.get(i));
        if a != b {
            let l = a.or(b).copied().unwrap_or("");
            return if l.trim_start().starts_with("at ") {
                "frame-line"
            } else if l.starts_with("Caused by: ") {
                "cause-line"
            } else if i == 0 {
                "first-line"
            } else {
                "other-line"
            };
        }
    }
    "length"
}

fn text_dfs(seq: &mut Vec<usize>, left: usize, builts: &[Built], subs: &[(&dyn Subj, &dyn Subj)], acc: &mut Acc, budget: &Budget) {
    if !seq.is_empty() {
        for (tn, sep, fin) in TEXT_TERMS {
            let mut text = String::new();
            for (k, &i) in seq.iter().enumerate() {
                text.push_str(SHAPES[i]);
                if k + 1 < seq.len() || fin {
                    text.push_str(sep);
                }
            }
            for (bi, b) in builts.iter().enumerate().take(subs.len()) {
                check_text(b, &text, subs[bi].0, subs[bi].1, acc);
            }
            if seq.len() == 3 && tn == "CRLF" {
                acc.sample(2, || json!({"text": text, "terminator": tn, "mappings": builts.iter().map(|b| b.label).collect::<Vec<_>>()}));
            }
        }
    }
    if seq.len() <= 2 {
        for l in long_shapes() {
            for pos in 0..=seq.len() {
                let mut parts: Vec<&str> = seq.iter().map(|&i| SHAPES[i]).collect();
                parts.insert(pos, &l);
                for (_, sep, fin) in TEXT_TERMS {
                    let mut text = parts.join(sep);
                    if fin {
                        text.push_str(sep);
                    }
                    for (bi, b) in builts.iter().enumerate().take(subs.len()) {
                        check_text(b, &text, subs[bi].0, subs[bi].1, acc);
                    }
                }
            }
        }
    }
    if left == 0 || budget.exceeded() {
        return;
    }
    for i in 0..SHAPES.len() {
        seq.push(i);
        text_dfs(seq, left - 1, builts, subs, acc, budget);
        seq.pop();
    }
}

/// run-length texts: N unresolved frame lines (unknown class / known class with unknown method / line outside
/// every range), then a frame of a known class that does not resolve, then frames that do resolve; with and
/// without a throwable first; frames that differ only in their file
pub fn run_length_texts() -> Vec<String> {
    let mut v = Vec::new();
    // smallest first: a defect whose cost grows with the run length is reported from the short runs even when a
    // long run never returns
    for n in [3usize, 4, 5, 8, 17, 99, 100, 101, 255, 256, 499, 500, 501, 1000, 1001] {
        for (ui, unresolved) in ["    at x.Unknown.m(U.java:2)", "    at a.b.zz(F.java:2)", "    at a.b.m(F.java:99)"].iter().enumerate() {
            let mut t = String::new();
            if ui != 1 {
                t.push_str("a.E: top\n");
            }
            for _ in 0..n {
                t.push_str(unresolved);
                t.push('\n');
            }
            t.push_str("    at a.b.zz(F.java:2)\n    at a.b.m(F.java:2)\n    at a.b.m(Other.kt:2)\n    at a.b.n(F.java:7)\n    at a.b.n(G.java:7)\nCaused by: a.E: inner\n    at a.b.m(F.java:5)\n");
            v.push(t);
        }
        // n resolving frames alternating between two files
        let mut t = String::from("a.E\n");
        for i in 0..n {
            t.push_str(if i % 2 == 0 { "    at a.b.n(F.java:7)\n" } else { "    at a.b.n(G.java:7)\n" });
        }
        v.push(t);
    }
    v
}

pub fn run_c07(tier: Tier) -> i32 {
    let t = tier.thorough();
    let budget = Budget::new(if t { 14 * 60 } else { 50 });
    let depth = if t { 5 } else { 4 };
    let mut work: Vec<Vec<usize>> = vec![vec![], vec![usize::MAX]];
    for a in 0..SHAPES.len() {
        for b in 0..SHAPES.len() {
            work.push(vec![a, b]);
        }
        work.push(vec![a]);
    }
    let acc = par_run(&work, &budget, |first, acc, budget| {
        let builts = build_all();
        // objects are built once per work item (they are immutable; C14/C20 cover repeated use)
        let mut abs: Vec<Aligned> = builts.iter().map(|_| Aligned::new(&[])).collect();
        let mut run = |subs: &[(&dyn Subj, &dyn Subj)]| {
            if first == &vec![usize::MAX] {
                for t in run_length_texts() {
                    for (bi, b) in builts.iter().enumerate().take(subs.len()) {
                        check_text(b, &t, subs[bi].0, subs[bi].1, acc);
                    }
                }
                return;
            }
            let mut seq = first.clone();
            if first.len() <= 1 {
                text_dfs(&mut seq, 0, &builts, subs, acc, budget);
            } else {
                text_dfs(&mut seq, depth - 2, &builts, subs, acc, budget);
            }
        };
        // nest the three with_both calls so that all subjects are alive together
        let (a0, rest) = abs.split_at_mut(1);
        let (a1, rest) = rest.split_at_mut(1);
        let (a2, rest) = rest.split_at_mut(1);
        // subjects: empty, M1, M2 and M4 = builts[0..4] (the i-th subject pair is checked against builts[i]); M3 is C08's
        with_both(&builts[0], &mut a0[0], |m0, c0| with_both(&builts[1], &mut a1[0], |m1, c1| with_both(&builts[2], &mut a2[0], |m2, c2| with_both(&builts[3], &mut rest[0], |m4, c4| run(&[(m0, c0), (m1, c1), (m2, c2), (m4, c4)])))));
    });
    let meta = RunMeta {
        prop: "C07",
        tier,
        level: "model_checking",
        rule: format!("every text of 1..={} lines over 41 line shapes (plus long lines and run-length texts: 99..1001 unresolved frames followed by a resolving one; plus 5 long lines of 1.1 kB / 70 kB placed first, between and after <= 2 other shapes) (throwables known/unknown with/without message, message containing ': ' and frame-like text, frames space/tab/trailing-blank indented that resolve to 2 / 1 / 0 frames, unknown method, unknown class, line outside every range, Native Method, Unknown Source, two frames differing only in their file, 'Caused by:' known/unknown/indented, '... n more', blank, 'at x(y:1)', non-ASCII) x 3 terminator policies (LF, CRLF, no final newline) x 4 mappings (empty; inline group + sourceFile; one that knows none of the names; the second one with R8's indented rewriteFrame / synthesized / outline comments below its member lines) x {{mapper (for every second mapping the one built with the parameter index), cache}}; oracle = text model R12 with an independent line classifier. states = (text, mapping); distinct = distinct expected outputs; non-trivial = outputs that differ from the normalised input", depth),
        bounds: json!({"lines": depth, "shapes": SHAPES.to_vec(), "terminators": ["LF","CRLF","LF without final newline"], "mappings": mappings().iter().map(|(l, m)| json!({"label":l,"text":esc(&print_file(m, Term::Lf))})).collect::<Vec<_>>()}),
        assumptions: vec!["lines are split like str::lines (LF, CR dropped only directly before LF)".into()],
        trusted_base: vec!["rustc/std (str::trim, str::parse::<usize>)".into(), "text model + line classifier in pgmc/src/props/e3.rs".into(), "reference model pgmc/src/model.rs".into()],
    };
    finish(meta, acc, &budget, &|c| recheck_text(c))
}

pub fn recheck_text(case: &Value) -> Vec<String> {
    let builts = build_all();
    let mut acc = Acc::new();
    let label = case["mapping"].as_str().unwrap_or("");
    let text = case["text"].as_str().unwrap_or("").to_string();
    for b in &builts {
        if b.label == label {
            let mut ab = Aligned::new(&[]);
            with_both(b, &mut ab, |m, c| check_text(b, &text, m, c, &mut acc));
        }
    }
    acc.violations.keys().cloned().collect()
}

// ---------------------------------------------------------------------------------------------
// C08: typed traces (R13) and agreement with the text API

const THROWABLES: [Option<(&str, Option<&str>)>; 7] = [None, Some(("a.E", Some("boom"))), Some(("a.E", None)), Some(("x.Unknown", Some("msg: with colon"))), Some(("x.Unknown", None)), Some(("a.E", Some("open: /x: denied"))), Some(("x.Unknown", Some("a.E")))];
const FRAMES: [(&str, &str, usize, Option<&str>); 8] = [
    ("a.b", "m", 2, Some("F.java")),
    ("a.b", "zz", 2, Some("F.java")),
    ("x.Unknown", "m", 2, Some("U.java")),
    ("a.b", "n", 7, Some("F.java")),
    // known class and method, line outside every range: does not resolve, must be kept
    ("a.b", "m", 99, Some("F.java")),
    // class names carrying a module / loader prefix: unknown to the mapping, kept as they are
    ("app//a.b", "m", 2, Some("F.java")),
    ("java.base/x.Unknown", "m", 2, Some("U.java")),
    // resolves to 40 frames with mapping M3 (deep inline group)
    ("d.D", "k", 1, Some("D.java")),
];

fn frame_seqs(max: usize, nframes: usize) -> Vec<Vec<usize>> {
    let mut v: Vec<Vec<usize>> = vec![vec![]];
    let mut fr: Vec<Vec<usize>> = vec![vec![]];
    for _ in 0..max {
        let mut nx = Vec::new();
        for f in &fr {
            for i in 0..nframes {
                let mut g = f.clone();
                g.push(i);
                nx.push(g);
            }
        }
        v.extend(nx.iter().cloned());
        fr = nx;
    }
    v
}

fn mk_level(thr: Option<(&str, Option<&str>)>, frames: &[usize]) -> OTrace {
    OTrace {
        exception: thr.map(|(c, m)| (c.to_string(), m.map(|x| x.to_string()))),
        frames: frames.iter().map(|&i| (FRAMES[i].0.to_string(), FRAMES[i].1.to_string(), FRAMES[i].2, FRAMES[i].3.map(|s| s.to_string()))).collect(),
        cause: None,
    }
}

/// R13 on the owned form
fn model_typed<'a>(model: &'a Model, t: &'a OTrace) -> OTrace {
    let exception = t.exception.as_ref().map(|(c, m)| match model.class(c) {
        Some(o) => (o.to_string(), m.clone()),
        None => (c.clone(), m.clone()),
    });
    let mut frames = Vec::new();
    let mut fr: Vec<MFrame<'a>> = Vec::new();
    for (c, m, l, f) in &t.frames {
        model.frames(c, m, *l as u64, f.as_deref(), &mut fr);
        if fr.is_empty() {
            frames.push((c.clone(), m.clone(), *l, f.clone()));
        } else {
            for x in &fr {
                frames.push((x.class.to_string(), x.method.to_string(), x.line as usize, x.file.map(|s| s.to_string())));
            }
        }
        fr.clear();
    }
    OTrace { exception, frames, cause: t.cause.as_ref().map(|c| Box::new(model_typed(model, c))) }
}

fn otrace_json(t: &OTrace) -> Value {
    json!({"exception": t.exception, "frames": t.frames.iter().map(|(c,m,l,f)| json!([c,m,*l as u64,f])).collect::<Vec<_>>(), "cause": t.cause.as_ref().map(|c| otrace_json(c))})
}
fn otrace_from_json(v: &Value) -> OTrace {
    OTrace {
        exception: v["exception"].as_array().map(|a| (a[0].as_str().unwrap_or("").to_string(), a[1].as_str().map(|s| s.to_string()))),
        frames: v["frames"].as_array().map(|a| a.iter().map(|f| (f[0].as_str().unwrap_or("").to_string(), f[1].as_str().unwrap_or("").to_string(), f[2].as_u64().unwrap_or(0) as usize, f[3].as_str().map(|s| s.to_string()))).collect()).unwrap_or_default(),
        cause: if v["cause"].is_null() { None } else { Some(Box::new(otrace_from_json(&v["cause"]))) },
    }
}

fn first_typed_diff(e: &OTrace, g: &OTrace, depth: usize) -> String {
    if e.exception != g.exception {
        return if g.exception.is_none() && e.exception.is_some() { "exception-dropped".into() } else { "exception".into() };
    }
    if e.frames != g.frames {
        return if g.frames.len() < e.frames.len() { "frames-missing".into() } else { "frames".into() };
    }
    match (&e.cause, &g.cause) {
        (None, None) => "none".into(),
        (Some(a), Some(b)) => first_typed_diff(a, b, depth + 1),
        _ => "cause-depth".into(),
    }
}

fn check_typed(b: &Built, t: &OTrace, canonical: bool, mapper: &dyn Subj, cache: &dyn Subj, acc: &mut Acc) {
    acc.states += 1;
    let exp = model_typed(&b.model, t);
    acc.outcome(h64(&exp), &exp != t);
    let size = t.depth() * 10 + t.frames.len();
    for s in [mapper, cache] {
        acc.observations += 1;
        acc.transitions += 1;
        let case = |g: Value| json!({"kind":"typed","mapping":b.label,"mapping_text":esc(&b.bytes),"trace":otrace_json(t),"canonical":canonical,"subject":s.label(),"expected":otrace_json(&exp),"observed":g});
        match guarded(|| s.remap_typed(t)) {
            Ok((got, printed_in, printed_out)) => {
                if got != exp {
                    let d = first_typed_diff(&exp, &got, 0);
                    acc.violation(format!("typed:{}:{}", s.label(), d), size, || (format!("remap_stacktrace_typed on {} with mapping {}: expected {:?} got {:?}", s.label(), b.label, exp, got), case(otrace_json(&got))));
                }
                if canonical {
                    acc.observations += 1;
                    match guarded(|| s.remap_stacktrace(&printed_in)) {
                        Ok(Ok(txt)) => {
                            if txt != printed_out {
                                acc.violation(format!("typed-vs-text:{}", s.label()), size, || (format!("printing the typed result gives {:?}, the text API gives {:?} for the printed input {:?}", printed_out, txt, printed_in), case(json!({"typed_printed":printed_out,"text_api":txt,"printed_input":printed_in}))));
                            }
                        }
                        other => acc.violation(format!("typed-vs-text:{}:error", s.label()), size, || (format!("text API failed: {:?}", other), case(json!(format!("{:?}", other))))),
                    }
                }
            }
            Err(p) => acc.violation(format!("panic:{}", panic_site(&p)), size, || (p.clone(), case(json!(p)))),
        }
    }
}

/// long typed traces (run lengths of unresolved frames, frames differing only in file): the texts of
/// `run_length_texts` parsed by the library's own trace parser (C17 covers that parser) and remapped typed
fn c08_run_lengths(builts: &[Built], acc: &mut Acc) {
    for t in run_length_texts() {
        for b in [&builts[4], &builts[2]] {
            let mut ab = Aligned::new(&[]);
            with_both(b, &mut ab, |m, c| {
                if let Some((parsed, _, _)) = m.remap_typed_text(&t) {
                    check_typed(b, &parsed, true, m, c, acc);
                    acc.count("run-length typed traces", 1);
                }
            });
        }
    }
}

/// typed traces whose frames carry a parameter list instead of a line (`StackFrame::with_parameters`): a frame that
/// resolves is replaced by the entries with that parameter list (R10), any other frame is kept unchanged -
/// including its parameter list, read through the accessor
/// sorted-run mappings: one method with n ascending disjoint ranges (entry i: lines 4i+1..4i+2) and one range that
/// encloses the next three, inserted at position p; label "SR:<n>:<p>"
fn sorted_run_built(n: usize, p: usize) -> Built {
    let mut v = vec![class("s.Run", "run")];
    for i in 0..=n {
        if i == p {
            let p4 = 4 * p as u64;
            v.push(method(Some((p4.max(1), p4 + 14)), None, "odd", "", Orig::SE(7000, 7014), "s"));
        }
        if i < n {
            let b = 4 * i as u64;
            v.push(method(Some((b + 1, b + 2)), None, leak(&format!("o{}", i)), "", Orig::SE(1000 + b, 1001 + b), "s"));
        }
    }
    let bytes = print_file(&v, Term::Lf);
    let model = Model::fold(&v);
    Built { label: leak(&format!("SR:{}:{}", n, p)), lines: v, bytes, model, param_mapper: p % 2 == 1 }
}

/// typed traces over the sorted-run mappings (n = 16, 32; the enclosing range at every position): two frames at lines
/// L, L+1 for every L in 0..=4n+20 (the lines that resolve through the enclosing entry only are among them)
fn c08_sorted_run(_builts: &[Built], acc: &mut Acc) {
    for n in [16usize, 32] {
        for p in 0..=n {
            let b = sorted_run_built(n, p);
            let mut ab = Aligned::new(&[]);
            with_both(&b, &mut ab, |m, c| {
                for l in 0..=4 * n + 20 {
                    let t = OTrace { exception: Some(("run".to_string(), Some("boom".to_string()))), frames: vec![("run".to_string(), "s".to_string(), l, Some("F.java".to_string())), ("run".to_string(), "s".to_string(), l + 1, Some("F.java".to_string()))], cause: None };
                    check_typed(&b, &t, true, m, c, acc);
                    acc.count("sorted-run typed traces", 1);
                }
            });
        }
    }
}

/// frames with files that contain the delimiters of the frame syntax, and with lines that are congruent to a mapped
/// line modulo 2^32 (they do not resolve: the frame is kept), on M1 / M4 (mapper and cache)
fn c08_special_frames(builts: &[Built], acc: &mut Acc) {
    let files = ["F.java", "F(1).kt", "R (c) [2].java", "F) ~[x", "Unknown Source", "<unknown>", "a b", "\u{e9}.kt"];
    let lines = [2usize, 5, 99, (1usize << 32) + 2, (1usize << 33) + 1, (1usize << 32) + 5, usize::MAX];
    for b in builts.iter().filter(|b| b.label.starts_with("M1") || b.label.starts_with("M4")) {
        let mut ab = Aligned::new(&[]);
        with_both(b, &mut ab, |m, c| {
            for (cl, me) in [("a.b", "m"), ("a.c", "r"), ("a.b", "n")] {
                for f in files {
                    for l in lines {
                        for exc in [Some(("a.E".to_string(), Some("boom".to_string()))), None] {
                            let t = OTrace { exception: exc.clone(), frames: vec![(cl.to_string(), me.to_string(), l, Some(f.to_string())), ("x.Unknown".to_string(), "m".to_string(), l, Some(f.to_string()))], cause: None };
                            check_typed(b, &t, true, m, c, acc);
                            // the same frames in a cause
                            if exc.is_some() {
                                let t2 = OTrace { exception: exc.clone(), frames: vec![], cause: Some(Box::new(t.clone())) };
                                check_typed(b, &t2, true, m, c, acc);
                            }
                            acc.count("special-file / large-line typed traces", 1);
                        }
                    }
                }
            }
        });
    }
}

fn c08_param_frames(builts: &[Built], acc: &mut Acc) {
    let pool: Vec<(String, String, String)> = {
        let mut v = Vec::new();
        for (c, m) in [("a.b", "m"), ("a.b", "n"), ("a.b", "zz"), ("x.Unknown", "m"), ("d.D", "k")] {
            for p in ["", "int", "zz.Unknown"] {
                v.push((c.to_string(), m.to_string(), p.to_string()));
            }
        }
        for (m, p) in [("a", "Config"), ("a$default", "Config"), ("a", "Config$Builder"), ("a", ""), ("a$default", "Config$Builder"), ("a-x", "Config")] {
            v.push(("a.p".to_string(), m.to_string(), p.to_string()));
        }
        v
    };
    for b in builts {
        let mut ab = Aligned::new(&[]);
        let r = guarded(|| {
            cur::with_subjects(&b.bytes, &mut ab, |m, mp, c, _| {
                let mut a2 = Acc::new();
                // all sequences of <= 2 frames
                let mut seqs: Vec<Vec<(String, String, String)>> = pool.iter().map(|f| vec![f.clone()]).collect();
                for x in &pool {
                    for y in &pool {
                        seqs.push(vec![x.clone(), y.clone()]);
                    }
                }
                let mut mout = Vec::new();
                for seq in &seqs {
                    for (label, s, has_index) in [("mapper", m as &dyn Subj, false), ("mapper-index", mp as &dyn Subj, true), ("cache", c as &dyn Subj, true)] {
                        a2.states += 1;
                        a2.transitions += 1;
                        a2.observations += 1;
                        let mut exp: Vec<(String, String, usize, Option<String>, Option<String>)> = Vec::new();
                        for (cl, me, pa) in seq {
                            b.model.frames_by_params(cl, me, pa, &mut mout);
                            if has_index && !mout.is_empty() {
                                for f in &mout {
                                    exp.push((f.class.to_string(), f.method.to_string(), 0, None, Some(pa.clone())));
                                }
                            } else {
                                exp.push((cl.clone(), me.clone(), 0, None, Some(pa.clone())));
                            }
                        }
                        let got: Vec<(String, String, usize, Option<String>, Option<String>)> = s.remap_typed_param_frames(seq).iter().map(|f| (f.class.to_string(), f.method.to_string(), f.line, f.file.map(|x| x.to_string()), f.params.map(|x| x.to_string()))).collect();
                        a2.outcome(h64(&exp), exp.len() != seq.len() || exp.iter().zip(seq.iter()).any(|(e, q)| e.0 != q.0));
                        // the mapper built without the parameter index is outside C03's statement: it may keep every such
                        // frame (today) or resolve it like the other two subjects
                        let alt_ok = !has_index && {
                            let mut alt: Vec<(String, String, usize, Option<String>, Option<String>)> = Vec::new();
                            for (cl, me, pa) in seq {
                                b.model.frames_by_params(cl, me, pa, &mut mout);
                                if !mout.is_empty() {
                                    for f in &mout {
                                        alt.push((f.class.to_string(), f.method.to_string(), 0, None, Some(pa.clone())));
                                    }
                                } else {
                                    alt.push((cl.clone(), me.clone(), 0, None, Some(pa.clone())));
                                }
                            }
                            got == alt
                        };
                        if got != exp && !alt_ok {
                            a2.violation(format!("typed:{}:param-frames", label), seq.len(), || {
                                (
                                    format!("remap_stacktrace_typed on {} with mapping {}: frames built with_parameters {:?}: expected {:?} got {:?}", label, b.label, seq, exp, got),
                                    json!({"kind":"param-frames","mapping":b.label,"frames":seq.iter().map(|(c, m, p)| json!([c, m, p])).collect::<Vec<_>>(),"subject":label}),
                                )
                            });
                        }
                    }
                }
                a2
            })
        });
        match r {
            Ok(Ok(a2)) => acc.merge(a2),
            Ok(Err(e)) => acc.violation("typed:param-frames:build", 0, || (e.clone(), json!({"kind":"param-frames","mapping":b.label,"frames":[]}))),
            Err(p) => acc.violation(format!("panic:{}", panic_site(&p)), 0, || (p.clone(), json!({"kind":"param-frames","mapping":b.label,"frames":[]}))),
        }
    }
    acc.count("typed traces of with_parameters frames", 1);
}

pub fn run_c08(tier: Tier) -> i32 {
    let t = tier.thorough();
    let budget = Budget::new(if t { 14 * 60 } else { 50 });
    let max_depth = if t { 4 } else { 3 };
    let fseqs = frame_seqs(2, FRAMES.len());
    // levels: (throwable index, frame sequence)
    let mut levels: Vec<(usize, usize)> = Vec::new();
    for ti in 0..THROWABLES.len() {
        for fi in 0..fseqs.len() {
            levels.push((ti, fi));
        }
    }
    // cause levels: quick uses the sub-family with <= 1 frame per cause level beyond depth 1
    let small_levels: Vec<(usize, usize)> = levels.iter().copied().filter(|(ti, fi)| *ti != 0 && fseqs[*fi].len() <= 1).collect();
    let cause_levels: Vec<(usize, usize)> = levels.iter().copied().filter(|(ti, _)| *ti != 0).collect();
    // tiny pool for the deeper levels: {known with message, unknown with message} x {no frame, resolving, '/'-class, 40-deep}
    let tiny_levels: Vec<(usize, usize)> = levels.iter().copied().filter(|(ti, fi)| (*ti == 1 || *ti == 3) && (fseqs[*fi].is_empty() || fseqs[*fi] == [0] || fseqs[*fi] == [5] || fseqs[*fi] == [7])).collect();
    let work: Vec<(usize, usize)> = levels.clone();
    let nlevels = levels.len();
    let acc = par_run(&work, &budget, |&(ti, fi), acc, budget| {
        let builts = build_all();
        if (ti, fi) == (0, 0) {
            c08_run_lengths(&builts, acc);
        }
        if (ti, fi) == (1, 0) {
            c08_param_frames(&builts, acc);
        }
        if (ti, fi) == (2, 0) {
            c08_sorted_run(&builts, acc);
        }
        if (ti, fi) == (3, 0) {
            c08_special_frames(&builts, acc);
        }
        let mut abs: Vec<Aligned> = vec![Aligned::new(&[]), Aligned::new(&[])];
        let (a1, a2) = abs.split_at_mut(1);
        with_both(&builts[4], &mut a1[0], |m1, c1| {
            with_both(&builts[2], &mut a2[0], |m2, c2| {
                let subs: [(&Built, &dyn Subj, &dyn Subj); 2] = [(&builts[4], m1, c1), (&builts[2], m2, c2)];
                let top = mk_level(THROWABLES[ti], &fseqs[fi]);
                let degenerate_top = top.exception.is_none() && top.frames.is_empty();
                // chains: depth 0..=max_depth; the first cause level ranges over all cause levels, deeper ones over the small family
                // chains: the pool of cause levels may differ per depth (pools[d] = levels allowed at cause depth d+1)
                fn rec(chain: &mut Vec<OTrace>, pools: &[&[(usize, usize)]], fseqs: &[Vec<usize>], visit: &mut dyn FnMut(&[OTrace]), budget: &Budget) {
                    visit(chain);
                    let d = chain.len() - 1;
                    if d >= pools.len() || budget.exceeded() {
                        return;
                    }
                    for &(ti, fi) in pools[d] {
                        chain.push(mk_level(THROWABLES[ti], &fseqs[fi]));
                        rec(chain, pools, fseqs, visit, budget);
                        chain.pop();
                    }
                }
                let mut chain = vec![top];
                let mut visit = |chain: &[OTrace]| {
                    // assemble
                    let mut t: Option<OTrace> = None;
                    for lvl in chain.iter().rev() {
                        let mut l = lvl.clone();
                        l.cause = t.take().map(Box::new);
                        t = Some(l);
                    }
                    let t = t.unwrap();
                    // canonical printed form: not the degenerate top level (try_parse defines it as "not a trace")
                    let canonical = !degenerate_top;
                    for (b, m, c) in subs.iter() {
                        check_typed(b, &t, canonical, *m, *c, acc);
                    }
                    if chain.len() == 3 {
                        acc.sample(2, || otrace_json(&t));
                    }
                };
                let forty = &cause_levels[..cause_levels.len().min(40)];
                if t {
                    // thorough: depth <= 3 with wide pools, then depth 4 with the narrow pool
                    rec(&mut chain, &[&cause_levels, forty, &tiny_levels], &fseqs, &mut visit, budget);
                    rec(&mut chain, &[&small_levels, &tiny_levels, &tiny_levels, &tiny_levels], &fseqs, &mut visit, budget);
                } else {
                    rec(&mut chain, &[&small_levels, &tiny_levels, &tiny_levels], &fseqs, &mut visit, budget);
                }
            })
        });
    });
    let meta = RunMeta {
        prop: "C08",
        tier,
        level: "model_checking",
        rule: format!("every typed trace with a top level from {} levels (exception absent / known / unknown x message / none; 0..2 frames over 8 frame kinds: resolving to 2 frames, unknown method, unknown class, entry without lines, known method with a line outside every range, two class names with a module prefix containing '/', a frame resolving to 40 frames) and cause chains of depth 0..={} (first cause level: {}; deeper levels: {} ) x 2 mappings x {{mapper, cache}}; plus typed traces of 1..2 frames built with StackFrame::with_parameters over 21 (class, method, parameter list) triples (incl. names and parameter strings in prefix relation with a '$' continuation) (a resolving frame is replaced by the entries with that parameter list, any other is kept unchanged including its parameter list; the mapper without the index keeps all or resolves likewise) on mapper / mapper-with-index / cache; plus long traces (99..1001 unresolved frames followed by resolving ones, frames that differ only in their file); plus traces whose frames carry files with '(' ')' '[' blanks and lines congruent to a mapped line modulo 2^32, at top level and in a cause; plus two-frame traces at every line of a method with 16 / 32 ascending ranges and one enclosing range at every position; oracle R13 (same depth, every throwable remapped-or-identical, every frame expanded-or-identical, order kept) and, for every trace, printed typed result == text API on the printed input. distinct = distinct expected traces; non-trivial = expected != input", nlevels, max_depth, if t { "all levels with an exception" } else { "levels with an exception and <= 1 frame" }, if t { "depth 2: the first 40 levels with an exception, depth 3: the 8-level pool {known, unknown} x {no frame, resolving, '/'-class, 40-deep}; plus depth-4 chains: first level <= 1 frame, then the 8-level pool" } else { "the 8-level pool {known, unknown} x {no frame, resolving, '/'-class, 40-deep}" }),
        bounds: json!({"top_levels": nlevels, "max_cause_depth": max_depth, "throwables": THROWABLES.iter().map(|t| format!("{:?}", t)).collect::<Vec<_>>(), "frames": FRAMES.iter().map(|f| format!("{:?}", f)).collect::<Vec<_>>()}),
        assumptions: vec!["canonical printed form: frames carry a file, cause levels carry an exception, the top level has an exception or a frame".into()],
        trusted_base: vec!["rustc/std".into(), "reference model pgmc/src/model.rs + model_typed in pgmc/src/props/e3.rs".into()],
    };
    finish(meta, acc, &budget, &|c| recheck_typed(c))
}

pub fn recheck_typed(case: &Value) -> Vec<String> {
    let builts = build_all();
    let mut acc = Acc::new();
    if case["kind"] == "param-frames" {
        c08_param_frames(&builts, &mut acc);
        return acc.violations.keys().cloned().collect();
    }
    let label = case["mapping"].as_str().unwrap_or("");
    let t = otrace_from_json(&case["trace"]);
    if let Some(rest) = label.strip_prefix("SR:") {
        let mut it = rest.split(':').filter_map(|x| x.parse::<usize>().ok());
        if let (Some(n), Some(p)) = (it.next(), it.next()) {
            let b = sorted_run_built(n, p);
            let mut ab = Aligned::new(&[]);
            with_both(&b, &mut ab, |m, c| check_typed(&b, &t, case["canonical"].as_bool().unwrap_or(true), m, c, &mut acc));
        }
        return acc.violations.keys().cloned().collect();
    }
    for b in &builts {
        if b.label == label {
            let mut ab = Aligned::new(&[]);
            with_both(b, &mut ab, |m, c| check_typed(b, &t, case["canonical"].as_bool().unwrap_or(true), m, c, &mut acc));
        }
    }
    acc.violations.keys().cloned().collect()
}

// ---------------------------------------------------------------------------------------------
// C17: print -> parse round trip

const RT_CLASSES: [&str; 6] = ["a.b.Err", "x.Y$Z", "\u{e9}.\u{dc}", "Caused", "Process", "FATAL"];
const RT_MESSAGES: [Option<&str>; 21] = [
    None,
    Some("m"),
    Some("x: y"),
    Some("Caused by: z"),
    Some("at a.b(c:1)"),
    Some("\u{e9}"),
    Some("two  spaces (in) it"),
    // characters that some notion of "line" or "white space" treats specially, in the interior of a message
    Some("ls\u{2028}ps\u{2029}nel\u{85}end"),
    Some("vt\u{b}ff\u{c}tab\tcr\rnbsp\u{a0}end"),
    Some("bs\\q\"x"),
    // log decorations as message text
    Some("worker exited, PID: 4242"),
    Some("open(/proc/self/maps): at a.b.C.run(SourceFile:17)"),
    Some("E/Tag(12): at a.b.C.run(F.java:1)"),
    Some("Exception in thread \"main\" x"),
    // messages that end in or consist of colons; a message that ends like a frame without being one
    Some("usage:"),
    Some("x::"),
    Some(":"),
    Some("open failed (errno:2)"),
    // words that mean something to a Java reader
    Some("null"),
    Some("true"),
    Some("a.b.Err"),
];
const RT_FCLASSES: [&str; 2] = ["a.b.C", "x.Y$1"];
const RT_METHODS: [&str; 5] = ["m", "<init>", "\u{e9}", "r: m", "m n"];
const RT_FILES: [&str; 10] = ["F.java", "Unknown Source", "<unknown>", "F(1).kt", "R (c) [2].java", "F) ~[x", "r8-map-id-48ffd94", "SourceFile", "Native Method", "R8$$SyntheticClass"];
const RT_LINES: [usize; 3] = [0, 1, usize::MAX];

fn rt_frames() -> Vec<(String, String, usize, Option<String>)> {
    let mut v = Vec::new();
    for c in RT_FCLASSES {
        for m in RT_METHODS {
            for f in RT_FILES {
                for l in RT_LINES {
                    v.push((c.to_string(), m.to_string(), l, Some(f.to_string())));
                }
            }
        }
    }
    // class names with a module / loader prefix (contain '/')
    v.push(("java.base/j.l.T".to_string(), "m".to_string(), 1, Some("F.java".to_string())));
    v.push(("app//a.b.C".to_string(), "<init>".to_string(), 0, Some("Unknown Source".to_string())));
    v
}

fn check_rt(t: &OTrace, full: bool, acc: &mut Acc) {
    acc.states += 1;
    acc.transitions += 2;
    acc.observations += 2;
    let r = guarded(|| if full { cur::roundtrip(t) } else { cur::text_fixpoint(t) });
    acc.outcome(h64(t), t.cause.is_some() || !t.frames.is_empty());
    let size = t.depth() * 10 + t.frames.len();
    match r {
        Ok(Ok(())) => {}
        Ok(Err(d)) => {
            let sig = if d.starts_with("printed trace does not parse") {
                "roundtrip:does-not-parse"
            } else if d.starts_with("parse(print") {
                "roundtrip:not-equal"
            } else {
                "roundtrip:text-fixpoint"
            };
            acc.violation(sig, size, || (d.clone(), json!({"kind":"roundtrip","trace":otrace_json(t),"full":full,"observed":d})));
        }
        Err(p) => acc.violation(format!("panic:{}", panic_site(&p)), size, || (p.clone(), json!({"kind":"roundtrip","trace":otrace_json(t),"full":full}))),
    }
}

pub fn run_c17(tier: Tier) -> i32 {
    let t = tier.thorough();
    let budget = Budget::new(if t { 14 * 60 } else { 50 });
    let max_depth = if t { 4 } else { 3 };
    let frames = rt_frames();
    let nf = frames.len();
    let mut thr: Vec<(String, Option<String>)> = Vec::new();
    for (ci, c) in RT_CLASSES.iter().enumerate() {
        for (mi, m) in RT_MESSAGES.iter().enumerate() {
            // the special messages: with the first class only; the two log-header classes: with three messages only
            if mi >= 7 && ci > 0 && !(ci >= 4 && mi == 10) {
                continue;
            }
            if ci >= 4 && ![0usize, 1, 10].contains(&mi) {
                continue;
            }
            thr.push((c.to_string(), m.map(|s| s.to_string())));
        }
    }
    // work items: (top-level throwable index or none) x first frame index or none
    let mut work: Vec<(Option<usize>, Option<usize>)> = Vec::new();
    for ti in std::iter::once(None).chain((0..thr.len()).map(Some)) {
        for fi in std::iter::once(None).chain((0..nf).map(Some)) {
            if ti.is_none() && fi.is_none() {
                continue; // the degenerate trace is "not a trace" by definition of try_parse
            }
            work.push((ti, fi));
        }
    }
    let nthr = thr.len();
    // a fixed interleaving of the work items: when the thorough tier hits its wall-clock cap, what was covered is a
    // spread over all top-level throwables and first frames, not a prefix of the list (the quick tier completes)
    {
        let mut keyed: Vec<(usize, usize, (Option<usize>, Option<usize>))> = work.iter().enumerate().map(|(i, w)| ((w.0.map(|x| x + 1).unwrap_or(0) * 7 + w.1.map(|x| x + 1).unwrap_or(0) * 13) % 16, i, *w)).collect();
        keyed.sort();
        work = keyed.into_iter().map(|k| k.2).collect();
    }
    let acc = par_run(&work, &budget, |&(ti, fi), acc, budget| {
        // single frames / throwables (once per distinct index)
        if ti.is_none() {
            if let Some(fi) = fi {
                let (c, m, l, f) = &frames[fi];
                acc.states += 1;
                acc.observations += 1;
                if let Ok(Err(d)) | Err(d) = guarded(|| cur::roundtrip_frame(c, m, *l, f.as_deref().unwrap())).map_err(|p| p) {
                    acc.violation("roundtrip:frame", 1, || (d.clone(), json!({"kind":"roundtrip-frame","frame":[c,m,*l as u64,f]})));
                }
            }
        }
        if fi.is_none() {
            if let Some(ti) = ti {
                let (c, m) = &thr[ti];
                acc.states += 1;
                acc.observations += 1;
                if let Ok(Err(d)) | Err(d) = guarded(|| cur::roundtrip_throwable(c, m.as_deref())) {
                    acc.violation("roundtrip:throwable", 1, || (d.clone(), json!({"kind":"roundtrip-throwable","throwable":[c,m]})));
                }
            }
        }
        let top_exc = ti.map(|i| thr[i].clone());
        // second frame: a stride through the frame list (full list in thorough)
        let second: Vec<Option<usize>> = if fi.is_some() { std::iter::once(None).chain((0..nf).filter(|k| (t && k % 4 == 0) || k % 7 == 0).map(Some)).collect() } else { vec![None] };
        // cause levels: throwable from a sub-list, 0..1 frames (2 in thorough)
        let cause_thr: Vec<usize> = (0..nthr).filter(|k| (t && k % 3 == 0) || k % 4 == 0).collect();
        // first cause level: additionally every throwable of the first class, i.e. every message of the list
        let first_cause_thr: Vec<usize> = (0..nthr).filter(|k| *k < RT_MESSAGES.len() || cause_thr.contains(k)).collect();
        let cause_frames: Vec<Option<usize>> = std::iter::once(None).chain((0..nf).filter(|k| k % (if t { 9 } else { 17 }) == 0).map(Some)).collect();
        for s in &second {
            let mut fr = Vec::new();
            if let Some(fi) = fi {
                fr.push(frames[fi].clone());
            }
            if let Some(s) = s {
                fr.push(frames[*s].clone());
            }
            let top = OTrace { exception: top_exc.clone(), frames: fr, cause: None };
            check_rt(&top, true, acc);
            // chains
            fn rec(chain: &mut Vec<OTrace>, left: usize, first: &[usize], cause_thr: &[usize], cause_frames: &[Option<usize>], thr: &[(String, Option<String>)], frames: &[(String, String, usize, Option<String>)], acc: &mut Acc, budget: &Budget, only_first: bool) {
                if left == 0 || budget.exceeded() {
                    return;
                }
                let list: &[usize] = if chain.len() == 1 { first } else { cause_thr };
                for (n, &ct) in list.iter().enumerate() {
                    // deeper levels use a thinner slice so that depth 3/4 stays enumerable
                    if chain.len() >= 2 && n % 4 != 0 {
                        continue;
                    }
                    if chain.len() >= 3 && n % 8 != 0 {
                        continue;
                    }
                    for (cfi, cf) in cause_frames.iter().enumerate() {
                        if chain.len() >= 2 && cfi >= 3 {
                            break;
                        }
                        let lvl = OTrace { exception: Some(thr[ct].clone()), frames: cf.map(|i| vec![frames[i].clone()]).unwrap_or_default(), cause: None };
                        chain.push(lvl);
                        let mut t: Option<OTrace> = None;
                        for l in chain.iter().rev() {
                            let mut l = l.clone();
                            l.cause = t.take().map(Box::new);
                            t = Some(l);
                        }
                        check_rt(&t.unwrap(), true, acc);
                        // the additional first-level throwables are not continued to deeper levels
                        if chain.len() > 2 || cause_thr.contains(&ct) {
                            rec(chain, left - 1, first, cause_thr, cause_frames, thr, frames, acc, budget, only_first);
                        }
                        chain.pop();
                    }
                }
            }
            // only the thin top-level family carries chains (otherwise the product explodes)
            if s.is_none() && fi.map(|f| f % 5 == 0).unwrap_or(true) {
                let mut chain = vec![top.clone()];
                rec(&mut chain, max_depth, &first_cause_thr, &cause_thr, &cause_frames, &thr, &frames, acc, budget, false);
            }
        }
        // one level with 20 frames; frames without file: text fix-point only
        if let (Some(_), Some(fi)) = (ti, fi) {
            if fi % 6 == 0 {
                let many: Vec<_> = (0..20).map(|k| frames[(fi + k * 7) % nf].clone()).collect();
                check_rt(&OTrace { exception: top_exc.clone(), frames: many, cause: None }, true, acc);
                let nofile: Vec<_> = (0..2).map(|k| { let mut f = frames[(fi + k) % nf].clone(); f.3 = None; f }).collect();
                check_rt(&OTrace { exception: top_exc.clone(), frames: nofile, cause: None }, false, acc);
            }
        }
        acc.sample(1, || json!({"top_exception": top_exc, "first_frame": fi.map(|i| json!(frames[i])), "checked": "parse(print(t)) == t and print(parse(print(t))) == print(t)"}));
    });
    let meta = RunMeta {
        prop: "C17",
        tier,
        level: "model_checking",
        rule: format!("throwables: 4 classes (with $, non-ASCII, 'Caused') x 10 messages (none, plain, 'x: y', 'Caused by: z', 'at a.b(c:1)', non-ASCII, inner double space and parentheses, interior U+2028/U+2029/U+0085, interior VT/FF/TAB/CR/NBSP, backslash and quote) = {}; frames (+ 2 whose class carries a module prefix containing '/'): 2 classes x 3 methods (m, <init>, non-ASCII) x 4 files (F.java, 'Unknown Source', '<unknown>', 'F(1).kt') x lines {{0,1,2^64-1}} = {}; traces: top-level exception present/absent x 0..2 frames (all first frames; second frame {}), one level with 20 frames, cause chains of depth 0..={} over a sub-family of cause levels (below tops without frames or with every 5th first frame); frames without file: text fix-point only. Oracle: parse(print(t)) == t and print(parse(print(t))) == print(t); single frames (3 indentations) and throwables likewise. distinct = distinct traces", nthr, nf, if t { "every 4th" } else { "every 7th" }, max_depth),
        bounds: json!({"throwables": nthr, "frames": nf, "max_cause_depth": max_depth}),
        assumptions: vec!["frames carry a file (a None file prints as <unknown> and parses back as Some(\"<unknown>\"): only the text fix-point is checked for it)".into(), "cause levels carry an exception; the trace with neither exception nor frames is excluded (try_parse defines it as not a trace)".into()],
        trusted_base: vec!["rustc/std".into(), "PartialEq of StackTrace / StackFrame / Throwable".into()],
    };
    finish(meta, acc, &budget, &|c| recheck_rt(c))
}

pub fn recheck_rt(case: &Value) -> Vec<String> {
    let mut acc = Acc::new();
    match case["kind"].as_str().unwrap_or("") {
        "roundtrip" => check_rt(&otrace_from_json(&case["trace"]), case["full"].as_bool().unwrap_or(true), &mut acc),
        "roundtrip-frame" => {
            let f = &case["frame"];
            if let Ok(Err(_)) | Err(_) = guarded(|| cur::roundtrip_frame(f[0].as_str().unwrap_or(""), f[1].as_str().unwrap_or(""), f[2].as_u64().unwrap_or(0) as usize, f[3].as_str().unwrap_or(""))) {
                return vec!["roundtrip:frame".into()];
            }
        }
        "roundtrip-throwable" => {
            let t = &case["throwable"];
            if let Ok(Err(_)) | Err(_) = guarded(|| cur::roundtrip_throwable(t[0].as_str().unwrap_or(""), t[1].as_str())) {
                return vec!["roundtrip:throwable".into()];
            }
        }
        _ => {}
    }
    acc.violations.keys().cloned().collect()
}
