//! C13: no mapping bytes and no query can make the library panic, overflow or fail.
//! Pipeline per input: mapper (both flags) -> cache written to memory -> parsed -> all queries ->
//! text trace -> typed trace (parse, remap, print). Oracle: no panic, no arithmetic overflow, no Err.
use crate::ast::*;
use crate::fw::*;
use crate::subj::{cur, Fr, Subj};
use serde_json::{json, Value};

pub const H_TOKENS: [&[u8]; 19] = [
    b"A -> a:\n",
    b" -> :\n",
    b"    ",
    b"void p()",
    b" -> m\n",
    b":",
    b"1",
    b"0",
    b"4294967294",
    b"4294967295",
    b"4294967296",
    b"18446744073709551615",
    b"18446744073709551616",
    b"123456789012345678901234567890",
    b"\xff",
    b"\xb2",
    b"\n",
    b"# {\"id\":\"sourceFile\",\"fileName\":\"\"}\n",
    b"    1:1:void (): -> \n",
];

pub const H_NUMS: [u64; 7] = [0, 1, 5, (1 << 32) - 2, (1 << 32) - 1, 1 << 32, u64::MAX];
const H_LINES: [usize; 9] = [0, 1, 3, 5, 6, (1usize << 32) - 1, 1usize << 32, usize::MAX - 1, usize::MAX];

const CLASSES: [&str; 4] = ["a", "A", "", "zz"];
const METHODS: [&str; 4] = ["m", "p", "", "zz"];
const TRACE: &str = "a: boom\n    at a.m(F.java:3)\n    at a.m(F.java:18446744073709551615)\n    at a.m(F.java:0)\nCaused by: A: x\n\tat a.p(Unknown Source:5)\n    at .(:4294967296)\n";

/// signatures beyond small sizes: array dimensions, parameter counts and class-name lengths around 127/128/255/256 and far beyond
pub fn long_signatures() -> Vec<String> {
    let mut v = Vec::new();
    for n in [127usize, 128, 129, 255, 256, 257, 1000, 70000] {
        v.push(format!("(){}I", "[".repeat(n)));
        v.push(format!("({}La/b;I)V", "[".repeat(n)));
        v.push(format!("({})V", "I".repeat(n)));
        v.push(format!("(L{};)L{};", "n".repeat(n), "p/".repeat(n / 2 + 1)));
        v.push(format!("(L{}", "\u{65e5}".repeat(n)));
    }
    v
}

/// the whole pipeline on one mapping; Err((site, description))
fn pipeline(bytes: &[u8], ab: &mut Aligned, obs: &mut u64, out_hash: &mut u64) -> Result<(), (String, String)> {
    // query names: the fixed ones plus (up to 12 of) the class and method names the mapping itself mentions
    let mut classes: Vec<String> = CLASSES.iter().map(|s| s.to_string()).collect();
    let mut methods: Vec<String> = METHODS.iter().map(|s| s.to_string()).collect();
    let _ = guarded(|| {
        for r in cur::ProguardMapping::new(bytes).iter().flatten() {
            match r {
                cur::ProguardRecord::Class { original, obfuscated } => {
                    for n in [original, obfuscated] {
                        if classes.len() < 16 && n.len() < 300 && !classes.iter().any(|c| c == n) {
                            classes.push(n.to_string());
                        }
                    }
                }
                cur::ProguardRecord::Method { original, obfuscated, .. } => {
                    for n in [original, obfuscated] {
                        if methods.len() < 16 && n.len() < 300 && !methods.iter().any(|c| c == n) {
                            methods.push(n.to_string());
                        }
                    }
                }
                _ => {}
            }
        }
    });
    let (classes, methods) = (&classes, &methods);
    let r = guarded(|| {
        cur::with_subjects(bytes, ab, |m, mp, c, _| {
            let mut v: Vec<Fr<'_>> = Vec::new();
            let mut h = 0u64;
            let subs: [&dyn Subj; 3] = [m, mp, c];
            for s in subs {
                for class in classes.iter().map(|s| s.as_str()) {
                    h ^= h64(&s.remap_class(class));
                    h ^= h64(&s.remap_throwable(class, Some("m")));
                    for method in methods.iter().map(|s| s.as_str()) {
                        h ^= h64(&s.remap_method(class, method));
                        for line in H_LINES {
                            s.remap_frame(class, method, line, Some("F.java"), None, &mut v);
                            h = h.rotate_left(1) ^ h64(&v[..]);
                            *obs += 1;
                        }
                        for p in ["", "int", "zz", "(", "(\u{e9}", "int,\u{1F600}", ")", ","] {
                            s.remap_frame(class, method, 0, None, Some(p), &mut v);
                            h = h.rotate_left(1) ^ h64(&v[..]);
                            *obs += 1;
                        }
                    }
                }
                match s.remap_stacktrace(TRACE) {
                    Ok(t) => h ^= h64(&t),
                    Err(e) => return Err(format!("remap_stacktrace returned Err({})", e)),
                }
                h ^= h64(&s.remap_typed_text(TRACE).map(|x| x.2));
                for sig in ["(La;I)V", "()La;", "(", "(L", "([[LA;)[J"] {
                    h ^= h64(&s.deobfuscate_signature(sig));
                }
                *obs += 8;
            }
            *out_hash = h;
            Ok(())
        })
    });
    match r {
        Ok(Ok(Ok(()))) => Ok(()),
        Ok(Ok(Err(e))) => Err(("error:remap_stacktrace".into(), e)),
        Ok(Err(e)) => Err((format!("error:{}", e.split(':').next().unwrap_or("pipeline").replace(' ', "-")), e)),
        Err(p) => Err((format!("panic:{}", panic_site(&p)), format!("panic: {}", p))),
    }
}

fn visit(bytes: &[u8], ab: &mut Aligned, acc: &mut Acc, case: &dyn Fn() -> Value) {
    acc.states += 1;
    acc.transitions += 1;
    let mut obs = 0;
    let mut h = 0;
    match pipeline(bytes, ab, &mut obs, &mut h) {
        Ok(()) => acc.outcome(h, true),
        Err((sig, d)) => acc.violation(sig, bytes.len(), || (format!("{} on mapping {:?}", d, esc(bytes)), case())),
    }
    acc.observations += obs.max(1);
}

fn tok_dfs(seq: &mut Vec<u8>, left: usize, ab: &mut Aligned, acc: &mut Acc, budget: &Budget) {
    let b = seq.clone();
    visit(&b, ab, acc, &|| json!({"kind":"bytes","text":esc(&b)}));
    if left == 0 || budget.exceeded() {
        return;
    }
    for t in H_TOKENS {
        let l = seq.len();
        seq.extend_from_slice(t);
        tok_dfs(seq, left - 1, ab, acc, budget);
        seq.truncate(l);
    }
}

/// structured hostile entries: all four numbers from the hostile numerals
fn hostile_entries(nums: &[u64]) -> Vec<Line> {
    let mut v = Vec::new();
    for &s in nums {
        for &e in nums {
            v.push(method(Some((s, e)), None, "p", "", Orig::None, "m"));
            for &a in nums {
                v.push(method(Some((s, e)), None, "p", "", Orig::S(a), "m"));
                for &b in nums {
                    v.push(method(Some((s, e)), None, "p", "", Orig::SE(a, b), "m"));
                }
            }
        }
    }
    v
}

/// texts / signatures for (d)
const SIG_CHARS: [&str; 10] = ["(", ")", "L", ";", "[", "I", "V", "\u{e9}", "/", "x"];
const TXT_TOKENS: [&str; 16] = ["at ", "a", ".", "(", ")", ":", "1", "\u{e9}", " ", "Caused by: ", "\t", "\n", "Exception in thread \"", "\"", "\u{a0}", "at"];

fn text_visit(s: &str, m: &dyn Subj, c: &dyn Subj, as_sig: bool, acc: &mut Acc) {
    acc.states += 1;
    acc.transitions += 1;
    let r = guarded(|| {
        let mut h = 0u64;
        for sub in [m, c] {
            if as_sig {
                h ^= h64(&sub.deobfuscate_signature(s));
            } else {
                match sub.remap_stacktrace(s) {
                    Ok(t) => h ^= h64(&t),
                    Err(e) => return Err(e),
                }
                h ^= h64(&sub.remap_typed_text(s).map(|x| x.2));
                h ^= h64(&cur::StackFrame::try_parse(s.as_bytes()).map(|f| f.to_string()));
                h ^= h64(&cur::Throwable::try_parse(s.as_bytes()).map(|f| f.to_string()));
            }
        }
        Ok(h)
    });
    acc.observations += if as_sig { 2 } else { 8 };
    match r {
        Ok(Ok(h)) => acc.outcome(h, true),
        Ok(Err(e)) => acc.violation("error:remap_stacktrace", s.len(), || (format!("remap_stacktrace({:?}) returned Err({})", s, e), json!({"kind": if as_sig {"sigtext"} else {"tracetext"}, "text": s}))),
        Err(p) => acc.violation(format!("panic:{}", panic_site(&p)), s.len(), || (format!("panic {} on {:?}", p, s), json!({"kind": if as_sig {"sigtext"} else {"tracetext"}, "text": s}))),
    }
}

fn str_dfs(s: &mut String, left: usize, toks: &[&str], m: &dyn Subj, c: &dyn Subj, as_sig: bool, acc: &mut Acc, budget: &Budget) {
    text_visit(s, m, c, as_sig, acc);
    if left == 0 || budget.exceeded() {
        return;
    }
    for t in toks {
        let l = s.len();
        s.push_str(t);
        str_dfs(s, left - 1, toks, m, c, as_sig, acc, budget);
        s.truncate(l);
    }
}

const TEXT_MAPPING: &[u8] = b"p.A -> a:\n    1:3:void x.Y.q():10:12 -> a\n    1:3:void p():20 -> a\n\xc3\xa9.B -> \xc3\xa9:\n    void r() -> a\n";

enum Work {
    Family(usize, usize),
    LongQueries,
    Tok(Vec<usize>, usize),
    Struct1(usize, usize),
    Struct2(usize),
    Sig(Vec<usize>, usize),
    Txt(Vec<usize>, usize),
    Scale,
}

pub fn run(tier: Tier) -> i32 {
    let t = tier.thorough();
    let budget = Budget::new(if t { 14 * 60 } else { 50 });
    let tdepth = if t { 6 } else { 5 };
    let e_full = hostile_entries(&H_NUMS);
    let small: Vec<u64> = if t { vec![1, 5, (1 << 32) - 1, 1 << 32, u64::MAX] } else { vec![1, 5, 1 << 32, u64::MAX] };
    let e_small = hostile_entries(&small);
    let mut work = Vec::new();
    work.push(Work::Tok(vec![], 1));
    for a in 0..H_TOKENS.len() {
        for b in 0..H_TOKENS.len() {
            work.push(Work::Tok(vec![a, b], tdepth));
        }
    }
    let mut i = 0;
    while i < e_full.len() {
        work.push(Work::Struct1(i, (i + 128).min(e_full.len())));
        i += 128;
    }
    for i in 0..e_small.len() {
        work.push(Work::Struct2(i));
    }
    let sdepth = if t { 6 } else { 5 };
    for a in 0..SIG_CHARS.len() {
        work.push(Work::Sig(vec![a], sdepth + 1));
    }
    for a in 0..TXT_TOKENS.len() {
        for b in 0..TXT_TOKENS.len() {
            work.push(Work::Txt(vec![a, b], sdepth));
        }
    }
    work.push(Work::Scale);
    work.push(Work::LongQueries);
    let fams: Vec<crate::e1::ListSpace> = vec![crate::families::scale_family(true), crate::families::unicode_family(), crate::families::sorted_run_family(), crate::families::r8_metadata_family()];
    for (fi, f) in fams.iter().enumerate() {
        let mut i = 0;
        while i < f.files.len() {
            work.push(Work::Family(fi, i));
            i += 64;
        }
    }
    let acc = par_run(&work, &budget, |w, acc, budget| {
        let mut ab = Aligned::new(&[]);
        match w {
            Work::Tok(first, depth) => {
                let mut seq = Vec::new();
                for &i in first {
                    seq.extend_from_slice(H_TOKENS[i]);
                }
                let left = if first.is_empty() { *depth } else { depth - first.len() };
                tok_dfs(&mut seq, left, &mut ab, acc, budget);
                acc.count("(a) hostile token strings", 0);
            }
            Work::Struct1(a, b) => {
                for e in &e_full[*a..*b] {
                    let lines = vec![class("p.A", "a"), *e];
                    let bytes = print_file(&lines, Term::Lf);
                    visit(&bytes, &mut ab, acc, &|| file_to_json(&lines, Term::Lf));
                    acc.count("(b) structured hostile mappings, 1 entry", 1);
                }
                acc.sample(1, || json!({"mapping": esc(&print_file(&[class("p.A", "a"), e_full[*a]], Term::Lf)), "pipeline": "mapper x2, cache write/parse, all queries incl. lines 0, 2^32, 2^64-1, text + typed trace, signatures"}));
            }
            Work::Struct2(i) => {
                for e2 in &e_small {
                    if budget.exceeded() {
                        return;
                    }
                    let lines = vec![class("p.A", "a"), e_small[*i], *e2];
                    let bytes = print_file(&lines, Term::Lf);
                    visit(&bytes, &mut ab, acc, &|| file_to_json(&lines, Term::Lf));
                    acc.count("(b) structured hostile mappings, 2 entries", 1);
                }
            }
            Work::Sig(first, depth) | Work::Txt(first, depth) => {
                let as_sig = matches!(w, Work::Sig(..));
                let toks: &[&str] = if as_sig { &SIG_CHARS } else { &TXT_TOKENS };
                let r = cur::with_subjects(TEXT_MAPPING, &mut ab, |m, _, c, _| {
                    let mut s: String = first.iter().map(|&i| toks[i]).collect();
                    str_dfs(&mut s, depth - first.len(), toks, m, c, as_sig, acc, budget);
                });
                if let Err(e) = r {
                    acc.violation("error:text-mapping", 0, || (e.clone(), json!({"kind":"bytes","text":esc(TEXT_MAPPING)})));
                }
            }
            Work::Scale => scale_family(acc),
            Work::Family(fi, start) => {
                for (lines, term) in fams[*fi].files.iter().skip(*start).take(64) {
                    if budget.exceeded() {
                        return;
                    }
                    let bytes = print_file(lines, *term);
                    visit(&bytes, &mut ab, acc, &|| file_to_json(lines, *term));
                    acc.count("(e) scale / character-class family mappings through the pipeline", 1);
                }
            }
            Work::LongQueries => {
                let r = cur::with_subjects(TEXT_MAPPING, &mut ab, |m, _, c, _| {
                    for s in long_signatures() {
                        text_visit(&s, m, c, true, acc);
                    }
                    let long = "m".repeat(1100);
                    for t in [format!("a: {}\nCaused by: a: {}\n    at a.a({}.java:1)\n", long, long, long), format!("{}\n", "z".repeat(70000)), format!("    at {}.a(F.java:1)\n", "p.".repeat(40000))] {
                        text_visit(&t, m, c, false, acc);
                    }
                    acc.count("(f) long signatures and long trace lines", 1);
                });
                if let Err(e) = r {
                    acc.violation("error:text-mapping", 0, || (e.clone(), json!({"kind":"bytes","text":esc(TEXT_MAPPING)})));
                }
            }
        }
    });
    let meta = RunMeta {
        prop: "C13",
        tier,
        level: "model_checking",
        rule: format!("(a) every string of <= {} tokens over 19 hostile tokens (numerals 0, 2^32-2, 2^32-1, 2^32, 2^64-1, 2^64, 30 digits; invalid UTF-8; Latin-1 'numeric' byte; empty names; empty sourceFile) as a mapping; (b) class line + 1 entry with all four numbers (and every combination of the optional originals) from 7 hostile numerals ({} entries), + all pairs of entries over a {}-numeral sub-alphabet; each through the whole pipeline (mapper with/without index, cache written to memory and parsed, class/method/frame queries with lines 0,1,3,5,6,2^32-1,2^32,2^64-2,2^64-1, by-params with 8 parameter strings incl. unbalanced parentheses and multi-byte characters at either end, text and typed trace, signatures); (d) every string of <= {} symbols over a 10-character descriptor alphabet as signature and over 15 trace tokens (multi-byte character, tab, NBSP, 'Caused by: ', 'Exception in thread \"', '\"', LF) as trace text / frame / throwable. Oracle: no panic (overflow checks compiled in), no Err. (e) every mapping of the scale family (classes of up to 129 entries, 301 classes, 100-deep inline groups, names up to 65537 bytes) and of the character-class family (105 special characters, sort pool, synthetic-file name shapes) through the pipeline with query names taken from the mapping; (f) signatures with 127..70000 array dimensions / parameters / name bytes and trace lines of 1.1 kB / 70 kB. (g) the handle-history pass (props/hist.rs): 7 small mappings, every ordered pair x 28 last queries on the first handle x 28 first queries on a second handle created in the same memory, for cache and mapper. Beyond the bound (not part of the exhaustive claim): scale family cause depth / frame count in {{64, 4096, 200000}} in a subprocess. distinct = distinct answer digests", tdepth, e_full.len(), small.len(), sdepth),
        bounds: json!({"token_depth": tdepth, "tokens": H_TOKENS.iter().map(|t| esc(t)).collect::<Vec<_>>(), "hostile_numerals": H_NUMS.iter().map(|n| n.to_string()).collect::<Vec<_>>(), "string_depth": sdepth}),
        assumptions: vec!["overflow checks and debug assertions are compiled into the subject (release profile of pgmc)".into()],
        trusted_base: vec!["rustc/std".into(), "catch_unwind + panic hook for attribution".into()],
    };
    let mut acc = acc;
    {
        // handle-history pass: handles parsed from recycled memory (props/hist.rs)
        let mut h = Acc::new();
        super::hist::reuse_history(&mut h);
        acc.merge(h);
    }
    finish(meta, acc, &budget, &|c| recheck(c))
}

// ---------------------------------------------------------------------------------------------
// scale family (beyond the exhaustive bound; reported separately)

fn scale_text(depth: usize, frames: usize) -> String {
    let mut s = String::from("a: top\n");
    for _ in 0..frames {
        s.push_str("    at a.a(F.java:2)\n");
    }
    for i in 0..depth {
        s.push_str("Caused by: a: level ");
        s.push_str(&i.to_string());
        s.push('\n');
        s.push_str("    at a.a(F.java:2)\n");
    }
    s
}

/// child entry point: `pgmc scale-probe <depth> <frames>`; exits 0 when the pipeline completes
pub fn scale_probe(args: &[String]) -> i32 {
    let depth: usize = args.first().and_then(|s| s.parse().ok()).unwrap_or(64);
    let frames: usize = args.get(1).and_then(|s| s.parse().ok()).unwrap_or(1);
    let h = std::thread::Builder::new()
        .stack_size(8 << 20)
        .spawn(move || {
            let text = scale_text(depth, frames);
            let mut ab = Aligned::new(&[]);
            cur::with_subjects(TEXT_MAPPING, &mut ab, |m, _, c, _| {
                for s in [m as &dyn Subj, c as &dyn Subj] {
                    let t = s.remap_stacktrace(&text).expect("text api");
                    assert!(t.len() >= text.len());
                    let typed = s.remap_typed_text(&text).expect("parses");
                    assert_eq!(typed.0.depth(), depth);
                }
            })
            .expect("mapping builds");
        })
        .unwrap();
    match h.join() {
        Ok(()) => 0,
        Err(_) => 3,
    }
}

fn scale_family(acc: &mut Acc) {
    let exe = std::env::current_exe().expect("exe");
    for (depth, frames) in [(64usize, 64usize), (4096, 4096), (0, 200_000), (200_000, 1)] {
        acc.states += 1;
        acc.transitions += 1;
        acc.observations += 1;
        let st = std::process::Command::new(&exe).args(["scale-probe", &depth.to_string(), &frames.to_string()]).env("PGMC_CHILD", "1").stderr(std::process::Stdio::null()).status();
        let ok = matches!(&st, Ok(s) if s.code() == Some(0));
        acc.count(&format!("scale probe depth={} frames={} -> {}", depth, frames, if ok { "completed".to_string() } else { format!("{:?}", st.as_ref().map(|s| s.to_string())) }), 1);
        if !ok {
            let how = match &st {
                Ok(s) if s.code().is_none() => "killed-by-signal",
                Ok(_) => "failed",
                Err(_) => "spawn-failed",
            };
            acc.violation(format!("scale:typed-trace:{}:depth-{}", how, depth), 1_000_000 + depth, || {
                (
                    format!("typed trace path (StackTrace::try_parse -> remap_stacktrace_typed -> Display -> Drop) did not complete for cause depth {} / {} frames on an 8 MiB stack: {:?}", depth, frames, st),
                    json!({"kind":"scale","depth":depth,"frames":frames}),
                )
            });
        }
    }
}

pub fn recheck(case: &Value) -> Vec<String> {
    if case["kind"] == "reuse-history" {
        return super::hist::recheck(case);
    }
    let mut acc = Acc::new();
    let mut ab = Aligned::new(&[]);
    match case["kind"].as_str().unwrap_or("") {
        "bytes" => {
            let b = unesc(case["text"].as_str().unwrap_or(""));
            visit(&b, &mut ab, &mut acc, &|| json!({}));
        }
        "ast" => {
            let (lines, term) = file_from_json(case);
            let b = print_file(&lines, term);
            visit(&b, &mut ab, &mut acc, &|| json!({}));
        }
        "sigtext" | "tracetext" => {
            let s = case["text"].as_str().unwrap_or("").to_string();
            let as_sig = case["kind"] == "sigtext";
            let _ = cur::with_subjects(TEXT_MAPPING, &mut ab, |m, _, c, _| text_visit(&s, m, c, as_sig, &mut acc));
        }
        "scale" => {
            let exe = std::env::current_exe().expect("exe");
            let depth = case["depth"].as_u64().unwrap_or(0) as usize;
            let frames = case["frames"].as_u64().unwrap_or(1) as usize;
            let st = std::process::Command::new(&exe).args(["scale-probe", &depth.to_string(), &frames.to_string()]).env("PGMC_CHILD", "1").stderr(std::process::Stdio::null()).status();
            let ok = matches!(&st, Ok(s) if s.code() == Some(0));
            if !ok {
                let how = match &st {
                    Ok(s) if s.code().is_none() => "killed-by-signal",
                    Ok(_) => "failed",
                    Err(_) => "spawn-failed",
                };
                return vec![format!("scale:typed-trace:{}:depth-{}", how, depth)];
            }
        }
        _ => {}
    }
    acc.violations.keys().cloned().collect()
}
