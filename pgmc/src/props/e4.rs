//! E4 "bytefault": C11 (torn / foreign / wrong-version files are rejected) and
//! C12 (no accepted buffer can make a query panic, overflow or read outside).
//!
//! C11 enumerates crash points (every strict prefix of every base file) and every single-field edit
//! of the 24-byte header. C12 enumerates deviations from a valid file with an explicit bound
//! (1 deviation for all base files, 2 for a few), re-executing the real parser and the complete
//! query universe on every corrupted buffer.
use crate::ast::*;
use crate::dec::*;
use crate::e1::*;
use crate::fw::*;
use crate::props::c10::diff_pair;
use crate::q::Universe;
use crate::subj::{cur, Fr, Subj};
use serde_json::{json, Value};

// ---------------------------------------------------------------------------------------------
// base files

fn collect(space: &dyn Space, out: &mut Vec<(Vec<Line>, Term)>) {
    let b = Budget::new(3600);
    for it in 0..space.n_items() {
        space.run_item(it, &b, &mut |l, t| out.push((l.to_vec(), t)));
    }
}

fn curated() -> Vec<(Vec<Line>, Term)> {
    let m = |r, c, n, a, o, obf| method(r, c, n, a, o, obf);
    let mut v: Vec<Vec<Line>> = vec![
        vec![],
        vec![class("p.A", "a")],
        vec![class("p.A", "a"), m(None, None, "p", "", Orig::None, "m")],
        vec![class("p.A", "a"), m(Some((1, 2)), None, "p", "int", Orig::SE(3, 4), "m")],
        vec![class("p.A", "a"), Line::SourceFile("S.kt"), m(Some((1, 2)), Some("x.Y"), "p", "", Orig::S(7), "m"), m(Some((1, 2)), None, "q", "", Orig::None, "m")],
        vec![class("p.A", "a"), Line::SourceFile("R8$$SyntheticClass"), m(Some((2, 4)), None, "p", "a.B,int[]", Orig::SE(7, 9), "m"), class("p.B", "b"), m(None, None, "q", "", Orig::None, "n")],
        vec![class("p.A", "a"), m(Some((1, 1)), None, "p", "", Orig::None, "m"), m(Some((1, 1)), None, "p", "", Orig::None, "m"), class("p.B", "b"), m(Some((5, 5)), None, "q", "int", Orig::SE(9, 7), "m"), class("p.C", "c")],
        vec![class("x.Outer$Inner", "b"), Line::SourceFile("R8$$SyntheticClass"), m(Some((3, 6)), None, "p", "", Orig::SE(7, 9), "m"), m(Some((3, 6)), Some("q.F$G"), "q", "", Orig::S(1), "m")],
        // nine classes whose obfuscated names share a 16-byte prefix (a comparator that skips a common prefix relies on
        // the table being sorted; one redirected name offset un-sorts it), one short name among them
        vec![class("o.A", "com.example.pkg.a"), class("o.B", "com.example.pkg.b"), class("o.C", "com.example.pkg.c"), class("o.D", "com.example.pkg.d"), m(None, None, "p", "", Orig::None, "m"), class("o.E", "com.example.pkg.e"), class("o.F", "com.example.pkg.f"), class("o.G", "com.example.pkg.g"), class("o.H", "com.example.pkg.h"), class("o.Z", "z")],
    ];
    // long non-ASCII names: runs of > 10 bytes with the high bit set inside the string section
    v.push(vec![class("com.example.\u{65e5}\u{672c}\u{8a9e}\u{306e}\u{30af}\u{30e9}\u{30b9}\u{540d}", "a"), m(Some((1, 2)), Some("\u{e9}\u{e8}\u{ea}\u{eb}\u{e0}\u{e2}\u{e4}.K"), "\u{65b9}\u{6cd5}\u{540d}\u{524d}\u{3067}\u{3059}", "\u{578b}\u{578b}\u{578b}\u{578b}", Orig::SE(3, 4), "m")]);
    // synthetic-file rule on class-name shapes ('$' before '.', leading / trailing '$' or '.')
    for (i, (l, _)) in crate::families::unicode_family().files.iter().rev().enumerate() {
        if i < 31 && l.iter().any(|x| matches!(x, Line::SourceFile("R8$$SyntheticClass"))) {
            v.push(l.clone());
        }
    }
    // 1..5 classes with 0..2 members each (odd/even counts so that every padding site is / is not exercised)
    for nc in 1..=5usize {
        for nm in 0..=2usize {
            let names: [S; 5] = ["a", "b", "c", "d", "e"];
            let mut f = Vec::new();
            for c in 0..nc {
                f.push(class(["p.A", "p.B", "p.C", "p.D", "p.E"][c], names[c]));
                for k in 0..nm {
                    f.push(m(Some((1 + k as u64, 2 + k as u64)), None, ["p", "q"][k], ["", "int"][(c + k) % 2], Orig::SE(3, 4), "m"));
                }
            }
            v.push(f);
        }
    }
    v.into_iter().map(|f| (f, Term::Lf)).collect()
}

// ---------------------------------------------------------------------------------------------
// C11

#[derive(Debug, PartialEq, Eq, Clone, Copy)]
enum Exp {
    AnyErr,
    Endianness,
    Format,
    Version,
    InvalidClasses,
    InvalidMembers,
    StringBytes(u64, u64),
    /// the documented layout fits into the buffer: no rejection is demanded
    NoClaim,
}

/// what the documented layout says about a buffer of `len` bytes with header `h`
fn expected_kind(h: &DHeader, len: u64) -> Exp {
    if h.magic == MAGIC.swap_bytes() {
        return Exp::Endianness;
    }
    if h.magic != MAGIC {
        return Exp::Format;
    }
    if h.version != 1 {
        return Exp::Version;
    }
    let l = layout(h);
    if l.classes_at + h.num_classes as u64 * CLASS_SIZE as u64 > len {
        return Exp::InvalidClasses;
    }
    if l.members_at + h.num_members as u64 * MEMBER_SIZE as u64 > len {
        return Exp::InvalidMembers;
    }
    if l.bp_at + h.num_by_params as u64 * MEMBER_SIZE as u64 > len {
        return Exp::InvalidMembers;
    }
    if l.strings_at > len {
        return Exp::StringBytes(h.string_bytes as u64, 0);
    }
    if len - l.strings_at < h.string_bytes as u64 {
        return Exp::StringBytes(h.string_bytes as u64, len - l.strings_at);
    }
    Exp::NoClaim
}

fn exp_name(e: Exp) -> &'static str {
    match e {
        Exp::AnyErr => "any-error",
        Exp::Endianness => "WrongEndianness",
        Exp::Format => "WrongFormat",
        Exp::Version => "WrongVersion",
        Exp::InvalidClasses => "InvalidClasses",
        Exp::InvalidMembers => "InvalidMembers",
        Exp::StringBytes(..) => "UnexpectedStringBytes",
        Exp::NoClaim => "no-claim",
    }
}

fn kind_matches(exp: Exp, got: &Result<(), cur::CacheErrorKind>) -> bool {
    use cur::CacheErrorKind as K;
    match (exp, got) {
        (Exp::NoClaim, _) => true,
        (Exp::AnyErr, Err(_)) => true,
        (Exp::Endianness, Err(K::WrongEndianness)) => true,
        (Exp::Format, Err(K::WrongFormat)) => true,
        (Exp::Version, Err(K::WrongVersion)) => true,
        (Exp::InvalidClasses, Err(K::InvalidClasses)) => true,
        (Exp::InvalidMembers, Err(K::InvalidMembers)) => true,
        (Exp::StringBytes(e, f), Err(K::UnexpectedStringBytes { expected, found })) => *expected as u64 == e && *found as u64 == f,
        _ => false,
    }
}

fn c11_visit(lines: &[Line], term: Term, acc: &mut Acc) {
    let mapping = print_file(lines, term);
    let size = mapping.len();
    let uni = Universe::from_ast(lines, false);
    acc.states += 1;
    let full = match guarded(|| cur::write_cache(&mapping)) {
        Ok(Ok(f)) => f,
        other => {
            acc.violation("write:failed", size, || (format!("cannot write the base file: {:?}", other.err()), file_to_json(lines, term)));
            return;
        }
    };
    let h0 = header(&full).expect("header");
    let mut ab = Aligned::new(&full);
    let mut ab_full = Aligned::new(&full);
    ab_full.set(&full);
    let mkcase = |what: Value, exp: String, got: String| {
        let mut c = file_to_json(lines, term);
        c["oracle"] = json!("C11");
        c["fault"] = what;
        c["expected"] = json!(exp);
        c["observed"] = json!(got);
        c
    };
    // (1) crash points: every strict prefix (files above 100 kB: the last 4096 prefixes, 8 bytes around every
    //     section boundary and every 65536th length - stated in the evidence)
    let big = full.len() > 100_000;
    let lay = layout(&h0);
    let marks = [HEADER_SIZE as u64, lay.classes_at, lay.members_at, lay.bp_at, lay.strings_at];
    for n in 0..full.len() {
        if big && !(n + 4096 >= full.len() || n % 65536 == 0 || marks.iter().any(|m| (n as u64 + 8 >= *m) && (n as u64) <= *m + 8)) {
            continue;
        }
        acc.transitions += 1;
        acc.observations += 1;
        let r = guarded(|| {
            let pre = ab.prefix(n);
            match cur::ProguardCache::parse(pre) {
                Err(e) => Err(e.kind()),
                Ok(c) => {
                    // accepted: must answer every query exactly like the full file
                    let fullc = cur::ProguardCache::parse(ab_full.as_slice()).expect("full file parses");
                    let mut sub = Acc::new();
                    diff_pair(&uni, &fullc, &c, "prefix", &mut sub, size, &|q, e, g| json!({"query":q,"expected":e,"observed":g}));
                    if let Some(v) = sub.violations.values().next() {
                        Ok(Some(v.desc.clone()))
                    } else {
                        Ok(None)
                    }
                }
            }
        });
        match r {
            Err(p) => acc.violation(format!("prefix:panic:{}", panic_site(&p)), size, || (format!("parsing the {}-byte prefix panicked: {}", n, p), mkcase(json!({"prefix":n}), "Err".into(), p.clone()))),
            Ok(Ok(None)) => {
                acc.count("strict prefixes accepted (and answering like the full file)", 1);
                acc.outcome(h64(&("prefix-accepted", n == 0)), true);
            }
            Ok(Ok(Some(d))) => acc.violation("prefix:accepted-and-answers-differ", size, || (format!("the {}-byte prefix of a {}-byte file is accepted but answers differently: {}", n, full.len(), d), mkcase(json!({"prefix":n}), "Err, or answers as the full file".into(), d.clone()))),
            Ok(Err(k)) => {
                acc.outcome(h64(&("prefix", format!("{:?}", std::mem::discriminant(&k)))), true);
                let exp = if n < HEADER_SIZE { Exp::AnyErr } else { expected_kind(&h0, n as u64) };
                if !kind_matches(exp, &Err(k)) {
                    acc.violation(format!("prefix:expected-{}", exp_name(exp)), size, || {
                        (format!("the {}-byte prefix of a {}-byte file is rejected with {:?}, the documented layout says {:?}", n, full.len(), k, exp), mkcase(json!({"prefix":n}), format!("{:?}", exp), format!("{:?}", k)))
                    });
                }
            }
        }
    }
    // (1b) the same crash points in a buffer whose address is 4 but not 8 modulo 8 (the parser asks for 4-byte
    //      alignment only: a Vec<u32>, a 4-aligned slot of an archive). Only the prefix clause is applied there: a
    //      strict prefix is rejected (with whatever error) or answers like the full file.
    if full.len() <= 4096 {
        let mut skewed = vec![0u8; 4];
        skewed.extend_from_slice(&full);
        let abs = Aligned::new(&skewed);
        for n in 0..full.len() {
            acc.transitions += 1;
            acc.observations += 1;
            let r = guarded(|| {
                let pre = &abs.as_slice()[4..4 + n];
                match cur::ProguardCache::parse(pre) {
                    Err(_) => None,
                    Ok(c) => {
                        let fullc = cur::ProguardCache::parse(ab_full.as_slice()).expect("full file parses");
                        let mut sub = Acc::new();
                        diff_pair(&uni, &fullc, &c, "prefix", &mut sub, size, &|q, e, g| json!({"query":q,"expected":e,"observed":g}));
                        Some(sub.violations.values().next().map(|v| v.desc.clone()))
                    }
                }
            });
            match r {
                Err(p) => acc.violation(format!("prefix:panic:{}", panic_site(&p)), size, || (format!("parsing the {}-byte prefix at an address = 4 (mod 8) panicked: {}", n, p), mkcase(json!({"prefix":n,"address_mod_8":4}), "Err".into(), p.clone()))),
                Ok(None) => {}
                Ok(Some(None)) => acc.count("strict prefixes accepted at an address = 4 (mod 8) (and answering like the full file)", 1),
                Ok(Some(Some(d))) => acc.violation("prefix:accepted-and-answers-differ:address-4-mod-8", size, || (format!("the {}-byte prefix of a {}-byte file, in a buffer at an address = 4 (mod 8), is accepted but answers differently: {}", n, full.len(), d), mkcase(json!({"prefix":n,"address_mod_8":4}), "Err, or answers as the full file".into(), d.clone()))),
            }
        }
    }
    // (2) every single-field edit of the 24-byte header
    let counts = [h0.num_classes, h0.num_members, h0.num_by_params, h0.string_bytes];
    let mut edits: Vec<(usize, u32)> = Vec::new();
    for v in [MAGIC.swap_bytes(), 0, MAGIC.wrapping_add(1), MAGIC.wrapping_sub(1), u32::MAX] {
        edits.push((0, v));
    }
    for v in [0u32, 2, u32::MAX] {
        edits.push((4, v));
    }
    for (i, c) in counts.iter().enumerate() {
        for v in [0, c.wrapping_sub(1), c.wrapping_add(1), c.wrapping_add(2), c.wrapping_add(1 << 31), u32::MAX] {
            if v != *c {
                edits.push((8 + 4 * i, v));
            }
        }
    }
    // every single-bit flip of every header field
    for f in 0..6usize {
        let cur = u32_at(&full, 4 * f);
        for b in 0..32 {
            edits.push((4 * f, cur ^ (1u32 << b)));
        }
    }
    for v in [0x0001_0001u32, 0x8000_0001, 0xffff_0001, 0x0100_0000, 0x0000_0101] {
        edits.push((4, v));
    }
    // precedence: a second edit behind a first one
    let mut scripts: Vec<Vec<(usize, u32)>> = edits.iter().map(|e| vec![*e]).collect();
    scripts.push(vec![(0, MAGIC.swap_bytes()), (4, 2)]);
    scripts.push(vec![(0, 0), (4, 2)]);
    scripts.push(vec![(4, 2), (8, u32::MAX)]);
    scripts.push(vec![(0, MAGIC.swap_bytes()), (8, u32::MAX)]);
    for sc in scripts {
        ab.set(&full);
        for (off, v) in &sc {
            put_u32(ab.as_mut_slice(), *off, *v);
        }
        let h = header(ab.as_slice()).unwrap();
        let exp = expected_kind(&h, full.len() as u64);
        acc.transitions += 1;
        acc.observations += 1;
        let r = guarded(|| cur::ProguardCache::parse(ab.as_slice()).map(|_| ()).map_err(|e| e.kind()));
        match r {
            Err(p) => acc.violation(format!("header-edit:panic:{}", panic_site(&p)), size, || (format!("header edit {:?}: parse panicked: {}", sc, p), mkcase(json!({"header_edits":sc}), format!("{:?}", exp), p.clone()))),
            Ok(got) => {
                acc.outcome(h64(&("edit", format!("{:?}", got.as_ref().err().map(std::mem::discriminant)))), got.is_err());
                if !kind_matches(exp, &got) {
                    acc.violation(format!("header-edit:expected-{}", exp_name(exp)), size, || {
                        (format!("header edit {:?} (offset, value): expected {:?}, parser said {:?}", sc, exp, got), mkcase(json!({"header_edits":sc}), format!("{:?}", exp), format!("{:?}", got)))
                    });
                }
            }
        }
    }
    acc.sample(2, || json!({"mapping": esc(&mapping), "cache_len": full.len(), "faults": "every strict prefix; every single-field header edit"}));
}

/// foreign files that are not derived from a cache: mapping texts, other formats' signatures, constant bytes, text.
/// Neither `PRGC` nor `CGRP` in front: >= 24 bytes => the format error; shorter => any error.
fn c11_foreign(acc: &mut Acc) {
    let mut bufs: Vec<(String, Vec<u8>)> = Vec::new();
    for (name, bytes) in crate::props::c02::corpus_files() {
        bufs.push((format!("mapping text {}", name), bytes.iter().copied().take(4096).collect()));
    }
    bufs.push(("small mapping text".into(), b"com.example.Foo -> a.b:\n    1:2:void run():3:4 -> r\n    int count -> c\n".to_vec()));
    bufs.push(("header comment text".into(), b"# compiler: R8\n# compiler_version: 1.2.3\n# min_api: 21\ncom.example.Foo -> a:\n".to_vec()));
    for (name, sig) in [("gzip", &b"\x1f\x8b\x08\x00"[..]), ("zstd", b"\x28\xb5\x2f\xfd"), ("zip", b"PK\x03\x04"), ("png", b"\x89PNG\r\n\x1a\n"), ("elf", b"\x7fELF"), ("pdf", b"%PDF-1.7"), ("xz", b"\xfd7zXZ\x00"), ("bzip2", b"BZh9"), ("lz4", b"\x04\x22\x4d\x18"), ("sqlite", b"SQLite format 3\x00"), ("java class", b"\xca\xfe\xba\xbe"), ("symcache", b"SYMC"), ("json", b"{\"version\":1}"), ("utf-8 bom", b"\xef\xbb\xbfPRGC"), ("lower case", b"prgc"), ("shifted", b"\x00PRGC")] {
        for fill in [0u8, 1, 0xff] {
            let mut b = sig.to_vec();
            // version field 1 and plausible counts behind the foreign magic
            while b.len() < 4 { b.push(fill); }
            b.truncate(b.len().max(4));
            let mut rest = vec![1u8, 0, 0, 0];
            rest.extend(std::iter::repeat(fill).take(60));
            b.extend(rest);
            bufs.push((format!("{} signature, fill {:#04x}", name, fill), b));
        }
    }
    for fill in [0u8, 0x20, 0x41, 0xff] {
        for len in [0usize, 1, 3, 4, 23, 24, 25, 64, 4096] {
            bufs.push((format!("{} bytes of {:#04x}", len, fill), vec![fill; len]));
        }
    }
    for (name, b) in bufs {
        acc.states += 1;
        acc.transitions += 1;
        acc.observations += 1;
        let ab = Aligned::new(&b);
        let magic_ok = b.len() >= 4 && (b[..4] == MAGIC.to_le_bytes() || b[..4] == MAGIC.swap_bytes().to_le_bytes());
        if magic_ok {
            continue;
        }
        let r = guarded(|| cur::ProguardCache::parse(ab.as_slice()).map(|_| ()).map_err(|e| e.kind()));
        let case = json!({"kind":"foreign","name":name,"bytes":esc(&b[..b.len().min(200)])});
        match r {
            Err(p) => acc.violation(format!("foreign:panic:{}", panic_site(&p)), b.len(), || (format!("parsing a foreign buffer ({}) panicked: {}", name, p), case.clone())),
            Ok(Ok(())) => acc.violation("foreign:accepted", b.len(), || (format!("a foreign buffer ({}) was accepted as a cache", name), case.clone())),
            Ok(Err(k)) => {
                acc.outcome(h64(&("foreign", format!("{:?}", std::mem::discriminant(&k)))), true);
                if b.len() >= HEADER_SIZE && !kind_matches(Exp::Format, &Err(k)) {
                    acc.violation("foreign:expected-WrongFormat", b.len(), || (format!("a foreign buffer ({}, {} bytes, neither magic) is rejected with {:?}; the statement says: the format error", name, b.len(), k), case.clone()));
                }
            }
        }
    }
    acc.count("foreign buffers (mapping texts, other formats' signatures, constant bytes)", 1);
}

pub fn run_c11(tier: Tier) -> i32 {
    let t = tier.thorough();
    let budget = Budget::new(if t { 14 * 60 } else { 50 });
    let mut bases: Vec<(Vec<Line>, Term)> = curated();
    collect(&ms_b(if t { 4 } else { 3 }, true), &mut bases);
    {
        let c = ms_c();
        for (i, f) in c.files.iter().enumerate() {
            if t || i % 4 == 0 {
                bases.push(f.clone());
            }
        }
        let d = ms_d(false);
        for (i, f) in d.files.iter().enumerate() {
            if f.0.len() <= 40 && (t || i % 2 == 0) {
                bases.push(f.clone());
            }
        }
    }
    // names of 127..1025 bytes (2-byte LEB128 prefixes) and the character-class family
    for (l, tm) in crate::families::scale_family(true).files.iter().filter(|(l, _)| l.iter().map(|x| x.printed().len()).sum::<usize>() < 6000 && l.len() <= 12) {
        bases.push((l.clone(), *tm));
    }
    for (i, f) in crate::families::unicode_family().files.iter().enumerate() {
        if t || i % 16 == 0 {
            bases.push(f.clone());
        }
    }
    // string sections beyond 2^24 and 2^25 bytes (where a 32-bit float can no longer tell adjacent lengths apart)
    for l in [(1usize << 24) + 5, (1 << 25) + 3] {
        bases.push((vec![class(leak(&"n".repeat(l)), "a"), method(None, None, "p", "", Orig::None, "m")], Term::Lf));
    }
    let nb = bases.len();
    let mut acc = par_run(&bases, &budget, |(l, tm), acc, _| c11_visit(l, *tm, acc));
    c11_foreign(&mut acc);
    let meta = RunMeta {
        prop: "C11",
        tier,
        level: "fault_enumeration",
        rule: "base files = caches written from every curated mapping, every MS-B history (depth <= 3 quick / 4 thorough), MS-C and small MS-D files, the long-name files (127..1025-byte names) and the character-class family; two files with a 16 MiB / 32 MiB string section; faults = every strict prefix length 0..len-1, in an 8-aligned buffer and (files <= 4 kB; prefix clause only) in a buffer at an address = 4 (mod 8) (crash points; for files above 100 kB the last 4096 prefixes, 8 bytes around every section boundary and every 65536th length) and every single-field edit of the header (5 magic values, 8 versions incl. values whose low or high half is 1, 6 values per count, every single-bit flip of all six fields) plus 4 two-edit precedence scripts; plus foreign buffers that are not derived from a cache (the corpus mapping texts, 16 other formats' signatures with 3 fills, constant bytes of 9 lengths: >= 24 bytes and neither magic => the format error); oracle = rejection with the error kind the documented layout implies (computed by the independent decoder), or acceptance with answers identical to the full file. evaluations = faulted buffers parsed; distinct = distinct (fault class, error kind) pairs".into(),
        bounds: json!({"base_files": nb, "prefixes": "all", "header_edits_per_file": "5 magic + 3 version + up to 24 count values + 4 precedence scripts"}),
        assumptions: vec!["prefixes shorter than the 24-byte header: any error kind is accepted (the statement names none)".into(), "buffers handed to the parser are 8-aligned (the parser pads relative to the memory address)".into()],
        trusted_base: vec!["rustc/std".into(), "layout arithmetic of pgmc/src/dec.rs".into()],
    };
    finish_fault(meta, acc, &budget, &|c| recheck_c11(c))
}

pub fn recheck_c11(case: &Value) -> Vec<String> {
    if case["kind"] == "foreign" {
        let mut acc = Acc::new();
        c11_foreign(&mut acc);
        return acc.violations.keys().cloned().collect();
    }
    let (lines, term) = file_from_json(case);
    let mut acc = Acc::new();
    c11_visit(&lines, term, &mut acc);
    acc.violations.keys().cloned().collect()
}

/// fault_enumeration evidence needs `evaluations`; reuse `finish` and patch the counts afterwards
pub fn finish_fault(meta: RunMeta, mut acc: Acc, budget: &Budget, re: &dyn Fn(&Value) -> Vec<String>) -> i32 {
    let evals = acc.transitions;
    acc.count("faulted buffers evaluated", evals);
    let prop = meta.prop;
    let code = finish(meta, acc, budget, re);
    // evaluations = faulted buffers (not base files)
    let path = format!("{}/evidence/{}.json", verif_dir(), prop);
    if let Ok(txt) = std::fs::read_to_string(&path) {
        if let Ok(mut v) = serde_json::from_str::<Value>(&txt) {
            v["coverage"]["evaluations"] = json!(evals);
            let _ = std::fs::write(&path, serde_json::to_string_pretty(&v).unwrap() + "\n");
        }
    }
    code
}

// ---------------------------------------------------------------------------------------------
// C12

#[derive(Clone, Debug, PartialEq)]
pub enum Dev {
    /// set the u32 at byte offset to value
    Field(usize, u32),
    /// flip one bit (bit index over the whole file)
    Bit(usize),
    /// set one byte
    Byte(usize, u8),
    /// swap two adjacent records of `len` bytes, the first starting at offset
    Swap(usize, usize),
    /// copy the record at offset over the following record
    Dup(usize, usize),
    /// overwrite bytes at offset with one of the LEB128 length-prefix patterns (index into LEB_PATTERNS)
    Leb(usize, usize),
}

/// length prefixes a decoder may mishandle: 2^64-1, 2^63, 2^32, 2^31, 2^28 (5 bytes), an over-long run of 0x80, 2^21
pub const LEB_PATTERNS: [&[u8]; 8] = [
    &[0xff, 0xff, 0xff, 0xff, 0xff, 0xff, 0xff, 0xff, 0xff, 0x01],
    &[0x80, 0x80, 0x80, 0x80, 0x80, 0x80, 0x80, 0x80, 0x80, 0x01],
    &[0x80, 0x80, 0x80, 0x80, 0x10],
    &[0x80, 0x80, 0x80, 0x80, 0x08],
    &[0x80, 0x80, 0x80, 0x80, 0x01],
    &[0x80, 0x80, 0x80, 0x80, 0x80, 0x80, 0x80, 0x80, 0x80, 0x80, 0x80, 0x00],
    &[0x80, 0x80, 0x80, 0x01],
    &[0xff, 0xff, 0xff, 0xff, 0x0f],
];

impl Dev {
    fn apply(&self, b: &mut [u8]) {
        match *self {
            Dev::Field(off, v) => put_u32(b, off, v),
            Dev::Bit(i) => b[i / 8] ^= 1 << (i % 8),
            Dev::Byte(off, v) => b[off] = v,
            Dev::Swap(off, len) => {
                for k in 0..len {
                    b.swap(off + k, off + len + k);
                }
            }
            Dev::Dup(off, len) => {
                for k in 0..len {
                    b[off + len + k] = b[off + k];
                }
            }
            Dev::Leb(off, pi) => {
                let p = LEB_PATTERNS[pi];
                let n = p.len().min(b.len().saturating_sub(off));
                b[off..off + n].copy_from_slice(&p[..n]);
            }
        }
    }
    fn to_json(&self) -> Value {
        match *self {
            Dev::Field(o, v) => json!({"field_at": o, "value": v}),
            Dev::Bit(i) => json!({"flip_bit": i}),
            Dev::Byte(o, v) => json!({"byte_at": o, "value": v}),
            Dev::Swap(o, l) => json!({"swap_records_at": o, "len": l}),
            Dev::Dup(o, l) => json!({"dup_record_at": o, "len": l}),
            Dev::Leb(o, p) => json!({"leb_pattern_at": o, "pattern": p}),
        }
    }
    fn from_json(v: &Value) -> Dev {
        let g = |k: &str| v[k].as_u64().unwrap_or(0) as usize;
        if v.get("field_at").is_some() {
            Dev::Field(g("field_at"), g("value") as u32)
        } else if v.get("flip_bit").is_some() {
            Dev::Bit(g("flip_bit"))
        } else if v.get("byte_at").is_some() {
            Dev::Byte(g("byte_at"), g("value") as u8)
        } else if v.get("leb_pattern_at").is_some() {
            Dev::Leb(g("leb_pattern_at"), g("pattern"))
        } else if v.get("swap_records_at").is_some() {
            Dev::Swap(g("swap_records_at"), g("len"))
        } else {
            Dev::Dup(g("dup_record_at"), g("len"))
        }
    }
}

fn field_devs(full: &[u8]) -> Vec<Dev> {
    let d = decode(full).expect("base file decodes");
    let h = d.header;
    let starts = string_starts(d.strings).unwrap_or_default();
    let mut vals: Vec<u32> = vec![0, 1, 2, h.num_classes, h.num_members.wrapping_sub(1), h.num_members, h.num_by_params.wrapping_sub(1), h.num_by_params, h.string_bytes.wrapping_sub(1), h.string_bytes, 1 << 31, u32::MAX - 1, u32::MAX];
    if let Some(s) = starts.get(1) {
        vals.push(*s);
        vals.push(*s + 1);
    }
    if let Some(s) = starts.last() {
        vals.push(*s);
    }
    // small string tables: every string start (a name offset redirected to ANY other string of the table)
    if starts.len() <= 40 {
        vals.extend(starts.iter().copied());
    }
    vals.sort();
    vals.dedup();
    let mut offs: Vec<usize> = (0..HEADER_SIZE).step_by(4).collect();
    for i in 0..h.num_classes as usize {
        for k in 0..7 {
            offs.push(d.layout.classes_at as usize + i * CLASS_SIZE + 4 * k);
        }
    }
    for i in 0..h.num_members as usize {
        for k in 0..9 {
            offs.push(d.layout.members_at as usize + i * MEMBER_SIZE + 4 * k);
        }
    }
    for i in 0..h.num_by_params as usize {
        for k in 0..9 {
            offs.push(d.layout.bp_at as usize + i * MEMBER_SIZE + 4 * k);
        }
    }
    // a file whose string section contains non-ASCII text: additionally EVERY offset of the string section
    if d.strings.iter().filter(|b| **b >= 0x80).count() > 10 {
        for x in 0..d.strings.len() as u32 {
            if !vals.contains(&x) {
                vals.push(x);
            }
        }
    }
    let mut v = Vec::new();
    for o in offs {
        let curv = u32_at(full, o);
        for &x in &vals {
            if x != curv {
                v.push(Dev::Field(o, x));
            }
        }
    }
    v
}

fn other_devs(full: &[u8]) -> Vec<Dev> {
    let d = decode(full).expect("base file decodes");
    let h = d.header;
    let mut v = Vec::new();
    for i in 0..full.len() * 8 {
        v.push(Dev::Bit(i));
    }
    for o in d.layout.strings_at as usize..full.len() {
        for b in [0x00u8, 0x7f, 0x80, 0xff] {
            if full[o] != b {
                v.push(Dev::Byte(o, b));
            }
        }
    }
    // LEB128 length-prefix patterns written over the start of every string and at the last 12 offsets of the section
    let starts = string_starts(d.strings).unwrap_or_default();
    let sa = d.layout.strings_at as usize;
    let mut spots: Vec<usize> = starts.iter().map(|s| sa + *s as usize).collect();
    for o in full.len().saturating_sub(12)..full.len() {
        if o >= sa && !spots.contains(&o) {
            spots.push(o);
        }
    }
    for o in spots {
        for pi in 0..LEB_PATTERNS.len() {
            v.push(Dev::Leb(o, pi));
        }
    }
    for i in 0..(h.num_classes as usize).saturating_sub(1) {
        v.push(Dev::Swap(d.layout.classes_at as usize + i * CLASS_SIZE, CLASS_SIZE));
        v.push(Dev::Dup(d.layout.classes_at as usize + i * CLASS_SIZE, CLASS_SIZE));
    }
    for i in 0..(h.num_members as usize).saturating_sub(1) {
        v.push(Dev::Swap(d.layout.members_at as usize + i * MEMBER_SIZE, MEMBER_SIZE));
        v.push(Dev::Dup(d.layout.members_at as usize + i * MEMBER_SIZE, MEMBER_SIZE));
    }
    for i in 0..(h.num_by_params as usize).saturating_sub(1) {
        v.push(Dev::Swap(d.layout.bp_at as usize + i * MEMBER_SIZE, MEMBER_SIZE));
        v.push(Dev::Dup(d.layout.bp_at as usize + i * MEMBER_SIZE, MEMBER_SIZE));
    }
    v
}

fn inside(s: &str, lo: usize, hi: usize) -> bool {
    if s.is_empty() {
        return true;
    }
    let p = s.as_ptr() as usize;
    p >= lo && p + s.len() <= hi
}

/// all queries of the universe against one (possibly corrupted) accepted buffer; returns the first offence
fn c12_queries(cache: &cur::ProguardCache<'_>, uni: &Universe, buf: (usize, usize), obs: &mut u64, outcomes: &mut Vec<u64>, long: bool) -> Option<(String, String)> {
    let mut out: Vec<Fr<'_>> = Vec::new();
    let (lo, hi) = buf;
    let lines: [usize; 7] = [0, 1, 2, 3, 5, (1usize << 32), usize::MAX];
    let okstr = |s: &str, qs: &[&str]| inside(s, lo, hi) || qs.iter().any(|q| inside(s, q.as_ptr() as usize, q.as_ptr() as usize + q.len()));
    for class in uni.all_classes() {
        *obs += 1;
        if let Some(c) = cache.remap_class(class) {
            outcomes.push(h64(&("class", c)));
            if !okstr(c, &[class]) {
                return Some(("outside:remap_class".into(), format!("remap_class({:?}) returned a string outside the buffer", class)));
            }
        }
        if let Some((c, m)) = Subj::remap_throwable(cache, class, Some("msg")) {
            if !okstr(c, &[class]) || !okstr(m.unwrap_or(""), &["msg"]) {
                return Some(("outside:remap_throwable".into(), format!("remap_throwable({:?}) returned a string outside buffer and query", class)));
            }
        }
        for method in uni.all_methods() {
            *obs += 1;
            if let Some((c, m)) = cache.remap_method(class, method) {
                outcomes.push(h64(&("method", c, m)));
                if !okstr(c, &[class, method]) || !okstr(m, &[class, method]) {
                    return Some(("outside:remap_method".into(), format!("remap_method({:?},{:?}) returned a string outside the buffer", class, method)));
                }
            }
            for &line in &lines {
                for file in [None, Some("F.java")] {
                    Subj::remap_frame(cache, class, method, line, file, None, &mut out);
                    *obs += 1;
                    outcomes.push(h64(&("byline", &out[..])));
                    for f in &out {
                        let qs = [class.as_str(), method.as_str(), file.unwrap_or("")];
                        if !okstr(f.class, &qs) || !okstr(f.method, &qs) || !okstr(f.file.unwrap_or(""), &qs) {
                            return Some(("outside:remap_frame".into(), format!("remap_frame({:?},{:?},{}) returned a string outside buffer and query", class, method, line)));
                        }
                    }
                }
            }
            for params in &uni.params {
                Subj::remap_frame(cache, class, method, 0, None, Some(params), &mut out);
                *obs += 1;
                for f in &out {
                    let qs = [class.as_str(), method.as_str(), params.as_str()];
                    if !okstr(f.class, &qs) || !okstr(f.method, &qs) || !okstr(f.params.unwrap_or(""), &qs) {
                        return Some(("outside:remap_frame-params".into(), format!("remap_frame({:?},{:?},params {:?}) returned a string outside buffer and query", class, method, params)));
                    }
                }
            }
        }
    }
    let (texts, sigs) = crate::props::c02::state_texts(uni);
    for t in &texts {
        *obs += 2;
        if cache.remap_stacktrace(t).is_err() {
            return Some(("error:remap_stacktrace".into(), "remap_stacktrace returned an error".into()));
        }
        let _ = cache.remap_typed_text(t);
    }
    for s in &sigs {
        *obs += 1;
        let _ = Subj::deobfuscate_signature(cache, s);
    }
    // malformed signatures whose slicing points fall next to multi-byte characters
    for s in HOSTILE_SIGS {
        *obs += 1;
        let _ = Subj::deobfuscate_signature(cache, s);
    }
    // the long signatures (up to 70000 array dimensions / parameters / name bytes): on the uncorrupted file and on
    // every 97th corrupted buffer
    if long {
        for s in LONG_SIGS.get_or_init(crate::props::c13::long_signatures) {
            *obs += 1;
            let _ = Subj::deobfuscate_signature(cache, s);
        }
    }
    None
}

static LONG_SIGS: std::sync::OnceLock<Vec<String>> = std::sync::OnceLock::new();
const HOSTILE_SIGS: [&str; 14] = ["", "(", ")", "()", "(L", "(L\u{e9})V", "([L\u{1F600})I", "(L\u{e9};)V", "(IL\u{e9}", "(\u{e9})V", "(I)\u{e9}", "(L;)L;", "\u{e9}(", "(La;Lb\u{20ac})I"];

struct C12Base {
    lines: Vec<Line>,
    term: Term,
    two: bool,
}

fn c12_eval(full: &[u8], devs: &[Dev], uni: &Universe, ab: &mut Aligned, acc: &mut Acc, size: usize, mkcase: &dyn Fn(&[Dev], String) -> Value) {
    ab.set(full);
    for d in devs {
        d.apply(ab.as_mut_slice());
    }
    acc.transitions += 1;
    let range = (ab.as_slice().as_ptr() as usize, ab.as_slice().as_ptr() as usize + ab.as_slice().len());
    let mut obs = 0u64;
    let mut outs: Vec<u64> = Vec::new();
    let r = guarded(|| match cur::ProguardCache::parse(ab.as_slice()) {
        Err(_) => (false, None),
        Ok(c) => (true, c12_queries(&c, uni, range, &mut obs, &mut outs, devs.is_empty() || acc.transitions % 97 == 0)),
    });
    acc.observations += obs.max(1);
    match r {
        Ok((accepted, off)) => {
            if accepted {
                acc.count("corrupted buffers accepted by parse (all queries issued)", 1);
                let hh = h64(&outs);
                acc.outcome(hh, true);
            } else {
                acc.count("corrupted buffers rejected by parse", 1);
                acc.outcome(1, false);
            }
            if let Some((sig, desc)) = off {
                acc.violation(sig, size + devs.len(), || (desc.clone(), mkcase(devs, desc.clone())));
            }
        }
        Err(p) => acc.violation(format!("panic:{}", panic_site(&p)), size + devs.len(), || (format!("panic: {}", p), mkcase(devs, p.clone()))),
    }
}

/// the same at another address residue: the (possibly edited) file sits `skew` bytes behind an 8-aligned address
fn c12_eval_skew(full: &[u8], devs: &[Dev], skew: usize, uni: &Universe, acc: &mut Acc, size: usize, mkcase: &dyn Fn(&[Dev], String) -> Value) {
    let mut plain = full.to_vec();
    for d in devs {
        d.apply(&mut plain);
    }
    let mut padded = vec![0u8; skew];
    padded.extend_from_slice(&plain);
    let ab = Aligned::new(&padded);
    let buf = &ab.as_slice()[skew..];
    acc.transitions += 1;
    let range = (buf.as_ptr() as usize, buf.as_ptr() as usize + buf.len());
    let mut obs = 0u64;
    let mut outs: Vec<u64> = Vec::new();
    let r = guarded(|| match cur::ProguardCache::parse(buf) {
        Err(_) => None,
        Ok(c) => c12_queries(&c, uni, range, &mut obs, &mut outs, false),
    });
    acc.observations += obs.max(1);
    acc.count("buffers at an address = 1 / 2 / 4 (mod 8)", 1);
    match r {
        Ok(None) => {}
        Ok(Some((sig, desc))) => acc.violation(format!("{}:address-{}-mod-8", sig, skew), size + devs.len(), || (format!("buffer at an address = {} (mod 8): {}", skew, desc), { let mut c = mkcase(devs, desc.clone()); c["address_mod_8"] = json!(skew); c })),
        Err(p) => acc.violation(format!("panic:{}", panic_site(&p)), size + devs.len(), || (format!("buffer at an address = {} (mod 8): panic: {}", skew, p), { let mut c = mkcase(devs, p.clone()); c["address_mod_8"] = json!(skew); c })),
    }
}

fn c12_visit(base: &C12Base, acc: &mut Acc, budget: &Budget) {
    let mapping = print_file(&base.lines, base.term);
    let size = mapping.len();
    let uni = Universe::from_ast(&base.lines, false);
    acc.states += 1;
    let full = match guarded(|| cur::write_cache(&mapping)) {
        Ok(Ok(f)) => f,
        _ => {
            acc.violation("write:failed", size, || ("cannot write base".into(), file_to_json(&base.lines, base.term)));
            return;
        }
    };
    let mkcase = |devs: &[Dev], got: String| {
        let mut c = file_to_json(&base.lines, base.term);
        c["oracle"] = json!("C12");
        c["deviations"] = json!(devs.iter().map(|d| d.to_json()).collect::<Vec<_>>());
        c["expected"] = json!("no panic, no overflow, strings inside buffer or query");
        c["observed"] = json!(got);
        c
    };
    let mut ab = Aligned::new(&full);
    let fdevs = field_devs(&full);
    let odevs = other_devs(&full);
    // 0 deviations: the valid file itself
    c12_eval(&full, &[], &uni, &mut ab, acc, size, &mkcase);
    for d in fdevs.iter().chain(odevs.iter()) {
        if budget.exceeded() {
            return;
        }
        c12_eval(&full, std::slice::from_ref(d), &uni, &mut ab, acc, size, &mkcase);
    }
    acc.count("1-deviation buffers", (fdevs.len() + odevs.len()) as u64);
    // other address residues: the parser asks for 4-byte alignment only; 1 and 2 must be rejected or harmless
    if full.len() <= 2000 {
        for skew in [1usize, 2, 4] {
            c12_eval_skew(&full, &[], skew, &uni, acc, size, &mkcase);
        }
        for d in fdevs.iter() {
            if budget.exceeded() {
                return;
            }
            c12_eval_skew(&full, std::slice::from_ref(d), 4, &uni, acc, size, &mkcase);
        }
    }
    if base.two {
        // 2 deviations: all pairs of field edits (different fields)
        let mut n = 0u64;
        for (i, a) in fdevs.iter().enumerate() {
            if budget.exceeded() {
                acc.notes.push("wall-clock cap hit inside a 2-deviation sweep".into());
                break;
            }
            for b in &fdevs[i + 1..] {
                if let (Dev::Field(oa, _), Dev::Field(ob, _)) = (a, b) {
                    if oa == ob {
                        continue;
                    }
                }
                c12_eval(&full, &[a.clone(), b.clone()], &uni, &mut ab, acc, size, &mkcase);
                n += 1;
            }
        }
        acc.count("2-deviation buffers (pairs of field edits)", n);
    }
    acc.sample(2, || json!({"mapping": esc(&mapping), "cache_len": full.len(), "field_edits": fdevs.len(), "bit_flips_byte_edits_swaps_dups": odevs.len(), "example_deviation": fdevs.first().map(|d| d.to_json())}));
}

pub fn run_c12(tier: Tier) -> i32 {
    let t = tier.thorough();
    let budget = Budget::new(if t { 14 * 60 } else { 50 });
    let mut raw: Vec<(Vec<Line>, Term)> = curated();
    let ncur = raw.len();
    collect(&ms_b(2, true), &mut raw);
    if t {
        let c = ms_c();
        for (i, f) in c.files.iter().enumerate() {
            if i % 64 == 0 {
                raw.push(f.clone());
            }
        }
    }
    let two_budget = if t { 5 } else { 3 };
    // 2-deviation bases: the small curated files with members (indices 2..)
    let mut bases: Vec<C12Base> = Vec::new();
    for (i, (l, tm)) in raw.into_iter().enumerate() {
        let two = i >= 2 && i < 2 + two_budget && i < ncur;
        bases.push(C12Base { lines: l, term: tm, two });
    }
    // split the 2-deviation bases off as separate items so that they run in parallel with the rest
    let nb = bases.len();
    let acc = par_run(&bases, &budget, |b, acc, budget| c12_visit(b, acc, budget));
    let meta = RunMeta {
        prop: "C12",
        tier,
        level: "fault_enumeration",
        rule: "base files = caches of the curated mappings and of every MS-B history of depth <= 2; deviation bound 1 on all base files: every 32-bit field (header, every class / member / by-params record) set to each boundary value (0,1,2,counts-1,counts,2^31,2^32-2,2^32-1, a valid string offset, an offset one byte into a string; for the base file with long non-ASCII names: every offset of the string section), every single-bit flip of the whole file, every string-section byte set to 00/7f/80/ff, 8 LEB128 length-prefix patterns (2^64-1, 2^63, 2^32, 2^31, 2^28, over-long, 2^21, 2^32-1) over the start of every string and the last 12 offsets, every adjacent record swap and duplication; deviation bound 2 (all pairs of field edits) on 3 (quick) / 5 (thorough) files. Every buffer the parser accepts is queried with the full universe incl. lines 0, 2^32, 2^64-1. evaluations = corrupted buffers; distinct = distinct answer vectors of accepted buffers".into(),
        bounds: json!({"base_files": nb, "deviation_bound_all_files": 1, "deviation_bound_2_files": two_budget}),
        assumptions: vec!["Debug/Display helpers of cache/debug.rs and ProguardCache::test() are outside the property's list of queries".into(), "overflow checks are compiled in (release profile with overflow-checks = true, debug-assertions = true)".into()],
        trusted_base: vec!["rustc/std".into(), "pgmc/src/dec.rs for locating fields".into()],
    };
    finish_fault(meta, acc, &budget, &|c| recheck_c12(c))
}

pub fn recheck_c12(case: &Value) -> Vec<String> {
    let (lines, term) = file_from_json(case);
    let mapping = print_file(&lines, term);
    let uni = Universe::from_ast(&lines, false);
    let devs: Vec<Dev> = case["deviations"].as_array().map(|a| a.iter().map(Dev::from_json).collect()).unwrap_or_default();
    let mut acc = Acc::new();
    if let Ok(Ok(full)) = guarded(|| cur::write_cache(&mapping)) {
        let mut ab = Aligned::new(&full);
        match case["address_mod_8"].as_u64() {
            Some(skew) if skew > 0 => c12_eval_skew(&full, &devs, skew as usize, &uni, &mut acc, mapping.len(), &|_, _| json!({})),
            _ => c12_eval(&full, &devs, &uni, &mut ab, &mut acc, mapping.len(), &|_, _| json!({})),
        }
    }
    acc.violations.keys().cloned().collect()
}
