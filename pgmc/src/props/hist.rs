//! Handle-history pass ("a handle parsed from recycled memory"): a cache is parsed from a buffer, queried, dropped;
//! the SAME buffer (same address, same capacity) is refilled with the cache of another mapping and parsed again; the
//! first queries on the new handle must be answered from the new contents. The same for a mapper built over a
//! recycled text buffer. Every (mapping i, mapping j, last query on i, first query on j) over a small family is
//! executed on the calling thread (state kept per thread or per address between handles is exactly what this is
//! meant to confuse); expected answers come from a mapper built over the family's own static text.
use crate::fw::*;
use crate::subj::{cur, Fr, Subj};
use serde_json::{json, Value};

const FAMILY: [&[u8]; 7] = [
    b"x.A -> a:\n    void m1() -> m\n    1:2:void f1():5:6 -> f\nx.B -> b:\n    void m2() -> m\nx.C -> c:\n    void m3() -> m\n",
    // originals rotated (same shape, same lengths)
    b"x.B -> a:\n    void m2() -> m\n    1:2:void f2():5:6 -> f\nx.C -> b:\n    void m3() -> m\nx.A -> c:\n    void m1() -> m\n",
    // obfuscated names shifted: b, c sit at other indices, a is gone, d is new
    b"x.A -> b:\n    void m1() -> m\n    1:2:void f1():5:6 -> f\nx.B -> c:\n    void m2() -> m\nx.C -> d:\n    void m3() -> m\n",
    // fewer classes (a remembered index is out of range)
    b"x.Z -> c:\n    void mz() -> m\n",
    b"x.Q -> a:\n    void mq() -> m\nx.R -> c:\n    void mr(int) -> m\n",
    // members swapped between methods
    b"x.A -> a:\n    void f1() -> m\n    1:2:void m1():5:6 -> f\nx.B -> b:\n    void m2() -> m\nx.C -> c:\n    void m3() -> m\n",
    b"",
];

const CLASSES: [&str; 4] = ["a", "b", "c", "d"];
const KINDS: [&str; 7] = ["class", "method", "frame-line", "frame-params", "throwable", "signature", "trace"];

fn run_query(s: &dyn Subj, class: &str, kind: usize) -> String {
    let mut out: Vec<Fr<'_>> = Vec::new();
    match kind {
        0 => format!("{:?}", s.remap_class(class)),
        1 => format!("{:?}", s.remap_method(class, "m")),
        2 => {
            s.remap_frame(class, "f", 1, Some("F.java"), None, &mut out);
            format!("{:?}", out)
        }
        3 => {
            s.remap_frame(class, "m", 0, None, Some(""), &mut out);
            format!("{:?}", out)
        }
        4 => format!("{:?}", s.remap_throwable(class, Some("boom"))),
        5 => format!("{:?}", s.deobfuscate_signature(&format!("(L{};[La;I)L{};", class, class))),
        _ => format!("{:?}", s.remap_stacktrace(&format!("{}: boom\n    at {}.f(F.java:2)\n    at a.m(F.java:1)\n", class, class))),
    }
}

fn nq() -> usize {
    CLASSES.len() * KINDS.len()
}
fn q_of(q: usize) -> (&'static str, usize) {
    (CLASSES[q / KINDS.len()], q % KINDS.len())
}

/// one sequence; returns (signature suffix, description) of a discrepancy
fn one(subject: &str, i: usize, j: usize, q_last: usize, q_first: usize, abuf: &mut Aligned, tbuf: &mut Vec<u8>, caches: &[Vec<u8>], expected: &[Vec<String>]) -> Option<(String, String)> {
    let (cl, kl) = q_of(q_last);
    let (cf, kf) = q_of(q_first);
    let r = guarded(|| {
        if subject == "cache" {
            abuf.set(&caches[i]);
            let addr1 = abuf.as_slice().as_ptr() as usize;
            {
                let c1 = cur::ProguardCache::parse(abuf.as_slice()).expect("parse i");
                let _ = run_query(&c1, cl, kl);
            }
            abuf.set(&caches[j]);
            assert_eq!(addr1, abuf.as_slice().as_ptr() as usize, "the buffer moved");
            let c2 = cur::ProguardCache::parse(abuf.as_slice()).expect("parse j");
            let first = run_query(&c2, cf, kf);
            // the repeated query goes through a clone of the handle (the Clone door)
            let c3 = c2.clone();
            let again = run_query(&c3, cf, kf);
            (first, again)
        } else {
            tbuf.clear();
            tbuf.extend_from_slice(FAMILY[i]);
            let addr1 = tbuf.as_ptr() as usize;
            {
                let m1 = cur::ProguardMapper::new_with_param_mapping(cur::ProguardMapping::new(tbuf), true);
                let _ = run_query(&m1, cl, kl);
            }
            tbuf.clear();
            tbuf.extend_from_slice(FAMILY[j]);
            assert_eq!(addr1, tbuf.as_ptr() as usize, "the buffer moved");
            let m2 = cur::ProguardMapper::new_with_param_mapping(cur::ProguardMapping::new(tbuf), true);
            let first = run_query(&m2, cf, kf);
            let m3 = m2.clone();
            let again = run_query(&m3, cf, kf);
            (first, again)
        }
    });
    let exp = &expected[j][q_first];
    match r {
        Ok((first, again)) => {
            if &first != exp {
                Some((format!("reuse-history:{}:{}", subject, KINDS[kf]), format!("{} of mapping #{} parsed at the address that held mapping #{} (whose last query was {} of {:?}): first query {} of {:?} answered {} - a handle of mapping #{} alone answers {}", subject, j, i, KINDS[kl], cl, KINDS[kf], cf, first, j, exp)))
            } else if &again != exp {
                Some((format!("reuse-history:{}:{}", subject, KINDS[kf]), format!("{} of mapping #{} (recycled memory of #{}): the repeated query (through a clone of the handle) {} of {:?} answered {} instead of {}", subject, j, i, KINDS[kf], cf, again, exp)))
            } else {
                None
            }
        }
        Err(p) => Some((format!("reuse-history:panic:{}", panic_site(&p)), format!("{} of mapping #{} parsed at the address that held mapping #{}: panic {} (last query on the old handle {} of {:?}, first on the new one {} of {:?})", subject, j, i, p, KINDS[kl], cl, KINDS[kf], cf))),
    }
}

fn tables() -> (Vec<Vec<u8>>, Vec<Vec<String>>) {
    let caches: Vec<Vec<u8>> = FAMILY.iter().map(|t| cur::write_cache(t).expect("write")).collect();
    let expected: Vec<Vec<String>> = FAMILY
        .iter()
        .map(|t| {
            let m = cur::ProguardMapper::new_with_param_mapping(cur::ProguardMapping::new(t), true);
            (0..nq())
                .map(|q| {
                    let (c, k) = q_of(q);
                    run_query(&m, c, k)
                })
                .collect()
        })
        .collect();
    (caches, expected)
}

pub fn reuse_history(acc: &mut Acc) {
    let (caches, expected) = tables();
    let mut abuf = Aligned::new(&vec![0u8; caches.iter().map(|c| c.len()).max().unwrap_or(0) + 64]);
    let mut tbuf: Vec<u8> = Vec::with_capacity(FAMILY.iter().map(|t| t.len()).max().unwrap_or(0) + 64);
    let mut n = 0u64;
    for subject in ["cache", "mapper"] {
        for i in 0..FAMILY.len() {
            for j in 0..FAMILY.len() {
                for q_last in 0..nq() {
                    for q_first in 0..nq() {
                        n += 1;
                        acc.states += 1;
                        acc.transitions += 3;
                        acc.observations += 2;
                        if let Some((sig, d)) = one(subject, i, j, q_last, q_first, &mut abuf, &mut tbuf, &caches, &expected) {
                            acc.violation(sig, i + j, || (d.clone(), json!({"kind":"reuse-history","subject":subject,"i":i,"j":j,"q_last":q_last,"q_first":q_first})));
                        }
                    }
                }
            }
        }
    }
    acc.count("reuse-history sequences (handle i queried and dropped, handle j parsed at the same address, first query)", n);
}

/// Re-execution: the whole pass in its fixed order (state a subject keeps per thread may have been built up by the
/// sequences before the recorded one, so a single sequence is not always self-contained); the recorded sequence
/// is printed for orientation
pub fn recheck(case: &Value) -> Vec<String> {
    let _ = case;
    let mut acc = Acc::new();
    reuse_history(&mut acc);
    acc.violations.keys().cloned().collect()
}
