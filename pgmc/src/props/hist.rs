//! Handle-history pass ("a handle parsed from recycled memory"): a cache is parsed from a buffer, queried, dropped;
//! the SAME buffer (same address, same capacity) is refilled with the cache of another mapping and parsed again; the
//! first queries on the new handle must be answered from the new contents. The same for a mapper built over a
//! recycled text buffer. Every (mapping i, mapping j, last query on i, first query on j) over a small family is
//! executed on the calling thread (state kept per thread or per address between handles is exactly what this is
//! meant to confuse); expected answers come from a mapper built over the family's own static text.
use crate::fw::*;
use crate::subj::{cur, Fr, Subj};
use serde_json::{json, Value};

const FAMILY: [&[u8]; 7] = [
    b"x.A -> a:\n    void m1() -> m\n    1:2:void f1():5:6 -> f\nx.B -> b:\n    void m2() -> m\nx.C -> c:\n    void m3() -> m\n",
    // originals rotated (same shape, same lengths)
    b"x.B -> a:\n    void m2() -> m\n    1:2:void f2():5:6 -> f\nx.C -> b:\n    void m3() -> m\nx.A -> c:\n    void m1() -> m\n",
    // obfuscated names shifted: b, c sit at other indices, a is gone, d is new
    b"x.A -> b:\n    void m1() -> m\n    1:2:void f1():5:6 -> f\nx.B -> c:\n    void m2() -> m\nx.C -> d:\n    void m3() -> m\n",
    // fewer classes (a remembered index is out of range)
    b"x.Z -> c:\n    void mz() -> m\n",
    b"x.Q -> a:\n    void mq() -> m\nx.R -> c:\n    void mr(int) -> m\n",
    // members swapped between methods
    b"x.A -> a:\n    void f1() -> m\n    1:2:void m1():5:6 -> f\nx.B -> b:\n    void m2() -> m\nx.C -> c:\n    void m3() -> m\n",
    b"",
];

const CLASSES: [&str; 4] = ["a", "b", "c", "d"];
const KINDS: [&str; 7] = ["class", "method", "frame-line", "frame-params", "throwable", "signature", "trace"];

fn run_query(s: &dyn Subj, class: &str, kind: usize) -> String {
    let mut out: Vec<Fr<'_>> = Vec::new();
    match kind {
        0 => format!("{:?}", s.remap_class(class)),
        1 => format!("{:?}", s.remap_method(class, "m")),
        2 => {
            s.remap_frame(class, "f", 1, Some("F.java"), None, &mut out);
            format!("{:?}", out)
        }
        3 => {
            s.remap_frame(class, "m", 0, None, Some(""), &mut out);
            format!("{:?}", out)
        }
        4 => format!("{:?}", s.remap_throwable(class, Some("boom"))),
        5 => format!("{:?}", s.deobfuscate_signature(&format!("(L{};[La;I)L{};", class, class))),
        _ => format!("{:?}", s.remap_stacktrace(&format!("{}: boom\n    at {}.f(F.java:2)\n    at a.m(F.java:1)\n", class, class))),
    }
}

fn nq() -> usize {
    CLASSES.len() * KINDS.len()
}
fn q_of(q: usize) -> (&'static str, usize) {
    (CLASSES[q / KINDS.len()], q % KINDS.len())
}

/// one sequence; returns (signature suffix, description) of a discrepancy
fn one(subject: &str, i: usize, j: usize, q_last: usize, q_first: usize, abuf: &mut Aligned, tbuf: &mut Vec<u8>, caches: &[Vec<u8>], expected: &[Vec<String>]) -> Option<(String, String)> {
    let (cl, kl) = q_of(q_last);
    let (cf, kf) = q_of(q_first);
    let r = guarded(|| {
        if subject == "cache" {
            abuf.set(&caches[i]);
            let addr1 = abuf.as_slice().as_ptr() as usize;
            {
                let c1 = cur::ProguardCache::parse(abuf.as_slice()).expect("parse i");
                let _ = run_query(&c1, cl, kl);
            }
            abuf.set(&caches[j]);
            assert_eq!(addr1, abuf.as_slice().as_ptr() as usize, "the buffer moved");
            let c2 = cur::ProguardCache::parse(abuf.as_slice()).expect("parse j");
            let first = run_query(&c2, cf, kf);
            // the repeated query goes through a clone of the handle (the Clone door)
            let c3 = c2.clone();
            let again = run_query(&c3, cf, kf);
            (first, again)
        } else {
            tbuf.clear();
            tbuf.extend_from_slice(FAMILY[i]);
            let addr1 = tbuf.as_ptr() as usize;
            {
                let m1 = cur::ProguardMapper::new_with_param_mapping(cur::ProguardMapping::new(tbuf), true);
                let _ = run_query(&m1, cl, kl);
            }
            tbuf.clear();
            tbuf.extend_from_slice(FAMILY[j]);
            assert_eq!(addr1, tbuf.as_ptr() as usize, "the buffer moved");
            let m2 = cur::ProguardMapper::new_with_param_mapping(cur::ProguardMapping::new(tbuf), true);
            let first = run_query(&m2, cf, kf);
            let m3 = m2.clone();
            let again = run_query(&m3, cf, kf);
            (first, again)
        }
    });
    let exp = &expected[j][q_first];
    match r {
        Ok((first, again)) => {
            if &first != exp {
                Some((format!("reuse-history:{}:{}", subject, KINDS[kf]), format!("{} of mapping #{} parsed at the address that held mapping #{} (whose last query was {} of {:?}): first query {} of {:?} answered {} - a handle of mapping #{} alone answers {}", subject, j, i, KINDS[kl], cl, KINDS[kf], cf, first, j, exp)))
            } else if &again != exp {
                Some((format!("reuse-history:{}:{}", subject, KINDS[kf]), format!("{} of mapping #{} (recycled memory of #{}): the repeated query (through a clone of the handle) {} of {:?} answered {} instead of {}", subject, j, i, KINDS[kf], cf, again, exp)))
            } else {
                None
            }
        }
        Err(p) => Some((format!("reuse-history:panic:{}", panic_site(&p)), format!("{} of mapping #{} parsed at the address that held mapping #{}: panic {} (last query on the old handle {} of {:?}, first on the new one {} of {:?})", subject, j, i, p, KINDS[kl], cl, KINDS[kf], cf))),
    }
}

fn tables() -> (Vec<Vec<u8>>, Vec<Vec<String>>) {
    let caches: Vec<Vec<u8>> = FAMILY.iter().map(|t| cur::write_cache(t).expect("write")).collect();
    let expected: Vec<Vec<String>> = FAMILY
        .iter()
        .map(|t| {
            let m = cur::ProguardMapper::new_with_param_mapping(cur::ProguardMapping::new(t), true);
            (0..nq())
                .map(|q| {
                    let (c, k) = q_of(q);
                    run_query(&m, c, k)
                })
                .collect()
        })
        .collect();
    (caches, expected)
}

pub fn reuse_history(acc: &mut Acc) {
    let (caches, expected) = tables();
    let mut abuf = Aligned::new(&vec![0u8; caches.iter().map(|c| c.len()).max().unwrap_or(0) + 64]);
    let mut tbuf: Vec<u8> = Vec::with_capacity(FAMILY.iter().map(|t| t.len()).max().unwrap_or(0) + 64);
    let mut n = 0u64;
    for subject in ["cache", "mapper"] {
        for i in 0..FAMILY.len() {
            for j in 0..FAMILY.len() {
                for q_last in 0..nq() {
                    for q_first in 0..nq() {
                        n += 1;
                        acc.states += 1;
                        acc.transitions += 3;
                        acc.observations += 2;
                        if let Some((sig, d)) = one(subject, i, j, q_last, q_first, &mut abuf, &mut tbuf, &caches, &expected) {
                            acc.violation(sig, i + j, || (d.clone(), json!({"kind":"reuse-history","subject":subject,"i":i,"j":j,"q_last":q_last,"q_first":q_first})));
                        }
                    }
                }
            }
        }
    }
    acc.count("reuse-history sequences (handle i queried and dropped, handle j parsed at the same address, first query)", n);
    pair_sequences(acc);
}

// ---------------------------------------------------------------------------------------------
// pair sequences on ONE handle: every ordered pair (q1, q2) of a 64-query pool (all query kinds, names that are
// ambiguous / overloaded / inlined) is issued back to back on one long-lived cache, mapper and mapper-with-index;
// every answer must be what the query returns on a fresh handle. State a handle keeps from its previous query (a
// "last class" / "last member range" memo shared between query kinds) is exactly what this is meant to confuse.

const SEQ_MAPPING: &[u8] = b"x.A -> a:\n    void m1() -> m\n    void m2(int) -> m\n    1:2:void f1():5:6 -> f\n    1:2:void g1():7 -> f\n    3:4:void f1():9:10 -> f\n    void only(int) -> o\n    void only(long) -> o\nx.B -> b:\n    void m2() -> m\n    1:2:void h():5:6 -> f\nx.C -> c:\n    void m3() -> m\n    void m3(int) -> m\n    void z() -> o\n";
const SEQ_KINDS: [&str; 16] = ["class", "method m", "method f", "method o", "frame f:1", "frame f:3", "frame m:0", "params m()", "params m(int)", "params o(int)", "params o(long)", "params f()", "throwable", "signature", "trace", "typed trace"];

fn seq_query(s: &dyn Subj, class: &str, kind: usize) -> String {
    let frame = |m: &'static str, line: usize, params: Option<&'static str>| {
        let mut out: Vec<Fr<'_>> = Vec::new();
        s.remap_frame(class, m, line, if params.is_some() { None } else { Some("F.java") }, params, &mut out);
        format!("{:?}", out)
    };
    match kind {
        0 => format!("{:?}", s.remap_class(class)),
        1 => format!("{:?}", s.remap_method(class, "m")),
        2 => format!("{:?}", s.remap_method(class, "f")),
        3 => format!("{:?}", s.remap_method(class, "o")),
        4 => frame("f", 1, None),
        5 => frame("f", 3, None),
        6 => frame("m", 0, None),
        7 => frame("m", 0, Some("")),
        8 => frame("m", 0, Some("int")),
        9 => frame("o", 0, Some("int")),
        10 => frame("o", 0, Some("long")),
        11 => frame("f", 0, Some("")),
        12 => format!("{:?}", s.remap_throwable(class, Some("boom"))),
        13 => format!("{:?}", s.deobfuscate_signature(&format!("(L{};[La;I)L{};", class, class))),
        14 => format!("{:?}", s.remap_stacktrace(&format!("{}: boom\n    at {}.f(F.java:2)\n    at a.m(F.java:1)\n", class, class))),
        _ => format!("{:?}", s.remap_typed_text(&format!("{}: boom\n    at {}.f(F.java:3)\n    at {}.o(F.java:1)\n", class, class, class)).map(|x| x.2)),
    }
}

pub fn pair_sequences(acc: &mut Acc) {
    let nq = CLASSES.len() * SEQ_KINDS.len();
    let q_of = |q: usize| (CLASSES[q / SEQ_KINDS.len()], q % SEQ_KINDS.len());
    let mut abuf = Aligned::new(&[]);
    let r = guarded(|| {
        let mut found: Vec<(String, String)> = Vec::new();
        let mut steps = 0u64;
        // expected: every query on a handle of its own
        let mut expected: Vec<Vec<String>> = vec![Vec::new(); 3];
        for q in 0..nq {
            let (c, k) = q_of(q);
            let mut ab2 = Aligned::new(&[]);
            let _ = cur::with_subjects(SEQ_MAPPING, &mut ab2, |m, mp, ca, _| {
                let subs: [&dyn Subj; 3] = [m, mp, ca];
                for (si, s) in subs.iter().enumerate() {
                    expected[si].push(seq_query(*s, c, k));
                }
            });
        }
        let _ = cur::with_subjects(SEQ_MAPPING, &mut abuf, |m, mp, ca, _| {
            let subs: [(&str, &dyn Subj); 3] = [("mapper", m), ("mapper-index", mp), ("cache", ca)];
            for (si, (label, s)) in subs.iter().enumerate() {
                // the by-params kinds are not asked of the mapper built without the index (outside C03's statement)
                let skip = |k: usize| si == 0 && (7..=11).contains(&k);
                for round in 0..2 {
                    for q1 in 0..nq {
                        for q2 in 0..nq {
                            let ((c1, k1), (c2, k2)) = (q_of(q1), q_of(q2));
                            if skip(k1) || skip(k2) {
                                continue;
                            }
                            steps += 2;
                            let a1 = seq_query(*s, c1, k1);
                            let a2 = seq_query(*s, c2, k2);
                            for (q, c, k, a, prev) in [(q1, c1, k1, &a1, None), (q2, c2, k2, &a2, Some((c1, k1)))] {
                                if *a != expected[si][q] && found.len() < 8 && !found.iter().any(|(sg, _)| *sg == format!("sequence:{}:{}", label, SEQ_KINDS[k].split(' ').next().unwrap_or(""))) {
                                    found.push((format!("sequence:{}:{}", label, SEQ_KINDS[k].split(' ').next().unwrap_or("")), format!("one long-lived {} handle (round {}): query '{}' of class {:?}{} answered {} - on a handle of its own it answers {}", label, round, SEQ_KINDS[k], c, match prev { Some((pc, pk)) => format!(" directly after '{}' of class {:?}", SEQ_KINDS[pk], pc), None => String::new() }, a, expected[si][q])));
                                }
                            }
                        }
                    }
                }
            }
        });
        (found, steps)
    });
    match r {
        Ok((found, steps)) => {
            acc.states += steps / 2;
            acc.transitions += steps;
            acc.observations += steps;
            acc.count("pair sequences on one handle (q1 then q2, both compared with a handle of their own)", steps / 2);
            for (sig, d) in found {
                acc.violation(sig, 2, || (d.clone(), json!({"kind":"reuse-history","pass":"pair-sequences"})));
            }
        }
        Err(p) => acc.violation(format!("sequence:panic:{}", panic_site(&p)), 2, || (format!("panic in the pair-sequence pass: {}", p), json!({"kind":"reuse-history","pass":"pair-sequences"}))),
    }
}

/// Re-execution: the whole pass in its fixed order (state a subject keeps per thread may have been built up by the
/// sequences before the recorded one, so a single sequence is not always self-contained); the recorded sequence
/// is printed for orientation
pub fn recheck(case: &Value) -> Vec<String> {
    let _ = case;
    let mut acc = Acc::new();
    reuse_history(&mut acc);
    acc.violations.keys().cloned().collect()
}
