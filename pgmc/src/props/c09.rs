//! C09: written cache files conform to the documented layout and ordering invariants.
//! Oracle: the independent decoder (dec.rs) + the counts/orders/contents the model derives from the AST.
use crate::ast::*;
use crate::dec::*;
use crate::e1::*;
use crate::fw::*;
use crate::model::{Block, Entry, Model};
use crate::props::c02::corpus_files;
use crate::subj::cur;
use serde_json::{json, Value};

type Finding = (String, String);

fn opt_str<'a>(strings: &'a [u8], off: u32, role: &str, allow_absent: bool, starts: &[u32]) -> Result<Option<&'a str>, Finding> {
    if off == ABSENT {
        if allow_absent {
            return Ok(None);
        }
        return Err((format!("string-ref:absent-{}", role), format!("{} is the absent sentinel where the format requires a string", role)));
    }
    if starts.binary_search(&off).is_err() {
        return Err((format!("string-ref:{}", role), format!("{} offset {} does not point at the start of a string", role, off)));
    }
    read_str(strings, off).map(Some).map_err(|e| (format!("string-ref:{}", role), e))
}

/// model-free structural requirements
pub fn structural(b: &[u8]) -> Result<Decoded<'_>, Finding> {
    let d = decode(b).map_err(|e| {
        let cat = e.split(':').next().unwrap_or("decode").to_string();
        (format!("layout:{}", cat), e)
    })?;
    let starts = string_starts(d.strings).map_err(|e| ("string-section:walk".to_string(), e))?;
    let (mut moff, mut boff) = (0u64, 0u64);
    let mut prev: Option<&str> = None;
    for (i, c) in d.classes.iter().enumerate() {
        let obf = opt_str(d.strings, c.obf, "class.obfuscated", false, &starts)?.unwrap();
        opt_str(d.strings, c.orig, "class.original", false, &starts)?;
        opt_str(d.strings, c.file, "class.file", true, &starts)?;
        if let Some(p) = prev {
            if p.as_bytes() >= obf.as_bytes() {
                return Err(("class-order".into(), format!("class {} ({:?}) is not strictly greater than its predecessor {:?}", i, obf, p)));
            }
        }
        prev = Some(obf);
        if c.members_off as u64 != moff {
            return Err(("tiling:members".into(), format!("class {} ({:?}): members offset {} but the previous ranges end at {}", i, obf, c.members_off, moff)));
        }
        if c.bp_off as u64 != boff {
            return Err(("tiling:by-params".into(), format!("class {} ({:?}): by-params offset {} but the previous ranges end at {}", i, obf, c.bp_off, boff)));
        }
        moff += c.members_len as u64;
        boff += c.bp_len as u64;
        if moff > d.members.len() as u64 {
            return Err(("tiling:members".into(), format!("class {} ({:?}): member range ends at {} beyond the section ({})", i, obf, moff, d.members.len())));
        }
        if boff > d.by_params.len() as u64 {
            return Err(("tiling:by-params".into(), format!("class {} ({:?}): by-params range ends at {} beyond the section ({})", i, obf, boff, d.by_params.len())));
        }
        let ms = &d.members[c.members_off as usize..moff as usize];
        let mut pk: Option<&str> = None;
        for m in ms {
            let k = member_strings(&d, m, &starts)?;
            if let Some(p) = pk {
                if p.as_bytes() > k.0.as_bytes() {
                    return Err(("member-order".into(), format!("class {:?}: member {:?} after {:?}", obf, k.0, p)));
                }
            }
            pk = Some(k.0);
        }
        let bs = &d.by_params[c.bp_off as usize..boff as usize];
        let mut pk: Option<(&str, &str)> = None;
        for m in bs {
            let k = member_strings(&d, m, &starts)?;
            let key = (k.0, k.1.unwrap_or(""));
            if let Some(p) = pk {
                if (p.0.as_bytes(), p.1.as_bytes()) > (key.0.as_bytes(), key.1.as_bytes()) {
                    return Err(("by-params-order".into(), format!("class {:?}: by-params entry {:?} after {:?}", obf, key, p)));
                }
            }
            pk = Some(key);
        }
    }
    if moff != d.members.len() as u64 {
        return Err(("tiling:members".into(), format!("member ranges cover {} of {} entries", moff, d.members.len())));
    }
    if boff != d.by_params.len() as u64 {
        return Err(("tiling:by-params".into(), format!("by-params ranges cover {} of {} entries", boff, d.by_params.len())));
    }
    Ok(d)
}

/// (obfuscated, params, original class, original file, original name)
#[allow(clippy::type_complexity)]
fn member_strings<'a>(d: &Decoded<'a>, m: &DMember, starts: &[u32]) -> Result<(&'a str, Option<&'a str>, Option<&'a str>, Option<&'a str>, &'a str), Finding> {
    let obf = opt_str(d.strings, m.obf, "member.obfuscated", false, starts)?.unwrap();
    let params = opt_str(d.strings, m.params, "member.params", true, starts)?;
    let oc = opt_str(d.strings, m.orig_class, "member.original_class", true, starts)?;
    let of = opt_str(d.strings, m.orig_file, "member.original_file", true, starts)?;
    let on = opt_str(d.strings, m.orig_name, "member.original", false, starts)?.unwrap();
    Ok((obf, params, oc, of, on))
}

fn member_matches(d: &Decoded<'_>, m: &DMember, e: &Entry, starts: &[u32], section: &str) -> Result<(), Finding> {
    let (obf, params, oc, of, on) = member_strings(d, m, starts)?;
    let (s, en) = e.usable.unwrap_or((0, 0));
    let exp_end = e.oe.map(|x| x as u32).unwrap_or(ABSENT);
    let exp_params = if e.args.is_empty() { None } else { Some(e.args) };
    let mism = |f: &str, exp: String, got: String| Err((format!("{}:field:{}", section, f), format!("{} entry for {:?}: {} expected {} found {}", section, e.obf, f, exp, got)));
    if obf != e.obf {
        return mism("obfuscated", e.obf.into(), obf.into());
    }
    if on != e.name {
        return mism("original", e.name.into(), on.into());
    }
    if (m.startline as u64, m.endline as u64) != (s, en) {
        return mism("range", format!("{}:{}", s, en), format!("{}:{}", m.startline, m.endline));
    }
    if oc != e.cls {
        return mism("original_class", format!("{:?}", e.cls), format!("{:?}", oc));
    }
    if of != e.file {
        return mism("original_file", format!("{:?}", e.file), format!("{:?}", of));
    }
    if m.orig_start as u64 != e.os {
        return mism("original_startline", e.os.to_string(), m.orig_start.to_string());
    }
    if m.orig_end != exp_end {
        return mism("original_endline", format!("{:#x}", exp_end), format!("{:#x}", m.orig_end));
    }
    if params != exp_params {
        return mism("params", format!("{:?}", exp_params), format!("{:?}", params));
    }
    Ok(())
}

/// the counts, orders and contents the model derives from the AST
pub fn semantic(d: &Decoded<'_>, model: &Model) -> Result<(), Finding> {
    let starts = string_starts(d.strings).map_err(|e| ("string-section:walk".to_string(), e))?;
    let mut blocks: Vec<&Block> = model.surviving_blocks();
    blocks.sort_by(|a, b| a.obf.as_bytes().cmp(b.obf.as_bytes()));
    if d.classes.len() != blocks.len() {
        return Err(("count:classes".into(), format!("{} class entries, the mapping has {} distinct obfuscated class names", d.classes.len(), blocks.len())));
    }
    let exp_members: usize = blocks.iter().map(|b| b.entries.len()).sum();
    let exp_bp: usize = blocks.iter().map(|b| Model::by_params_survivors(b).len()).sum();
    if d.members.len() != exp_members {
        return Err(("count:members".into(), format!("{} member entries, expected {}", d.members.len(), exp_members)));
    }
    if d.by_params.len() != exp_bp {
        return Err(("count:by-params".into(), format!("{} by-params entries, expected {}", d.by_params.len(), exp_bp)));
    }
    for (c, b) in d.classes.iter().zip(blocks.iter()) {
        let obf = read_str(d.strings, c.obf).unwrap_or("?");
        let orig = read_str(d.strings, c.orig).unwrap_or("?");
        if obf != b.obf || orig != b.orig {
            return Err(("class:names".into(), format!("class entry ({:?} -> {:?}) expected ({:?} -> {:?})", orig, obf, b.orig, b.obf)));
        }
        if c.members_len as usize != b.entries.len() {
            return Err(("class:members_len".into(), format!("class {:?}: members_len {} expected {}", obf, c.members_len, b.entries.len())));
        }
        let surv = Model::by_params_survivors(b);
        if c.bp_len as usize != surv.len() {
            return Err(("class:by_params_len".into(), format!("class {:?}: by_params_len {} expected {}", obf, c.bp_len, surv.len())));
        }
        let mut es: Vec<&Entry> = b.entries.iter().collect();
        es.sort_by(|x, y| x.obf.as_bytes().cmp(y.obf.as_bytes())); // stable: file order within equal names
        for (m, e) in d.members[c.members_off as usize..(c.members_off + c.members_len) as usize].iter().zip(es.iter()) {
            member_matches(d, m, e, &starts, "members")?;
        }
        let mut bs = surv.clone();
        bs.sort_by(|x, y| (x.obf.as_bytes(), x.args.as_bytes()).cmp(&(y.obf.as_bytes(), y.args.as_bytes())));
        for (m, e) in d.by_params[c.bp_off as usize..(c.bp_off + c.bp_len) as usize].iter().zip(bs.iter()) {
            member_matches(d, m, e, &starts, "by-params")?;
        }
    }
    Ok(())
}

fn selftest(bytes: &[u8], abuf: &mut Aligned) -> Result<(), Finding> {
    abuf.set(bytes);
    match guarded(|| match cur::ProguardCache::parse(abuf.as_slice()) {
        Ok(c) => {
            c.test();
            Ok(())
        }
        Err(e) => Err(format!("{:?}", e.kind())),
    }) {
        Ok(Ok(())) => Ok(()),
        Ok(Err(e)) => Err(("selftest:parse".into(), format!("the library's own parser rejects the file: {}", e))),
        Err(p) => Err((format!("selftest:panic:{}", panic_site(&p)), format!("ProguardCache::test() panicked: {}", p))),
    }
}

pub fn visit(lines: &[Line], term: Term, ctx: &mut Ctx, acc: &mut Acc) {
    print_file_into(lines, term, &mut ctx.bytes);
    let model = Model::fold(lines);
    acc.states += 1;
    let mapping = std::mem::take(&mut ctx.bytes);
    let size = mapping.len();
    let mk = |exp: String, cache: &[u8]| {
        let mut c = file_to_json(lines, term);
        c["oracle"] = json!("C09");
        c["observed"] = json!(exp);
        c["cache_hex"] = json!(hex(cache));
        c
    };
    match guarded(|| cur::write_cache(&mapping)) {
        Ok(Ok(bytes)) => {
            acc.observations += 1;
            let verdict = structural(&bytes).and_then(|d| {
                acc.outcome(h64(&(d.classes.len(), d.members.len(), d.by_params.len(), d.strings.len())), !d.members.is_empty());
                semantic(&d, &model)
            });
            let verdict = verdict.and_then(|_| selftest(&bytes, &mut ctx.abuf));
            if let Err((sig, desc)) = verdict {
                acc.violation(sig, size, || (desc.clone(), mk(desc.clone(), &bytes)));
            }
            acc.sample(2, || json!({"mapping": esc(&mapping), "cache_bytes": bytes.len(), "cache_hex": hex(&bytes)}));
        }
        Ok(Err(e)) => acc.violation("write:error", size, || (format!("write failed: {}", e), mk(e.clone(), &[]))),
        Err(p) => acc.violation(format!("panic:{}", panic_site(&p)), size, || (format!("write panicked: {}", p), mk(p.clone(), &[]))),
    }
    ctx.bytes = mapping;
}

/// string-length family: LEB128 prefixes of 1, 2 and 3 bytes; multi-byte UTF-8; one string in every role
fn string_family() -> ListSpace {
    let mut files = Vec::new();
    let mk_name = |n: usize, ch: char| -> S { leak(&std::iter::repeat(ch).take(n).collect::<String>()) };
    for n in [1usize, 2, 127, 128, 129, 255, 256, 16383, 16384, 16385] {
        for ch in ['k', '\u{e9}', '\u{4e16}'] {
            let count = n / ch.len_utf8().max(1);
            if count == 0 {
                continue;
            }
            let s = mk_name(count, ch);
            // the same string in every role
            files.push((
                vec![class(s, s), Line::SourceFile(s), method(Some((1, 2)), Some(s), s, s, Orig::SE(3, 4), s), method(None, None, s, "", Orig::None, s)],
                Term::Lf,
            ));
            // distinct strings of the same length in every role
            let t = mk_name(count, 'z');
            files.push((vec![class(s, t), method(None, None, "p", t, Orig::None, "m"), class(t, s), Line::SourceFile(t), method(Some((1, 1)), None, "q", "", Orig::None, "m")], Term::Lf));
        }
    }
    ListSpace { name: "string-length family".into(), note: "names of 1,2,127,128,129,255,256,16383,16384,16385 bytes (1-, 2- and 3-byte LEB128 prefixes) built from 1-, 2- and 3-byte UTF-8 characters; the same string in every role, and distinct equal-length strings".into(), files, wide: false, chunk: Default::default() }
}

enum Item {
    Ast(usize, usize),
    Corpus(usize),
}

pub fn run(tier: Tier) -> i32 {
    let t = tier.thorough();
    let budget = Budget::new(if t { 14 * 60 } else { 50 });
    let spaces: Vec<Box<dyn Space>> = vec![
        Box::new(ms_a(2, t)),
        Box::new(ms_a_large(1)),
        Box::new(ms_b(if t { 5 } else { 4 }, true)),
        Box::new(ms_b(if t { 6 } else { 5 }, false)),
        Box::new(ms_c()),
        Box::new(ms_d(t)),
        Box::new(ms_e(if t { 1 } else { 0 })),
        Box::new(string_family()),
        Box::new(crate::families::scale_family(true)),
        Box::new(crate::families::sorted_run_family()),
        Box::new(crate::families::file_header_family()),
        Box::new(crate::families::far_apart_family_level(1)),
        Box::new(crate::families::unicode_family()),
        Box::new(crate::families::relation_family()),
        Box::new(crate::families::huge_family(0)),
        Box::new(crate::families::giant_family()),
    ];
    let corpus = corpus_files();
    let mut items = Vec::new();
    for (si, s) in spaces.iter().enumerate() {
        for it in 0..s.n_items() {
            items.push(Item::Ast(si, it));
        }
    }
    for i in 0..corpus.len() {
        items.push(Item::Corpus(i));
    }
    let mut acc = par_run(&items, &budget, |item, acc, budget| match item {
        Item::Ast(si, it) => {
            let sp = &spaces[*si];
            let mut ctx = Ctx::new();
            let mut last = 0usize;
            sp.run_item(*it, budget, &mut |lines, term| {
                acc.transitions += if lines.len() > last { (lines.len() - last) as u64 } else { 1 };
                last = lines.len();
                visit(lines, term, &mut ctx, acc);
                acc.count(&format!("states[{}]", sp.name()), 1);
            });
        }
        Item::Corpus(i) => {
            let (name, bytes) = &corpus[*i];
            acc.states += 1;
            acc.transitions += 1;
            acc.count("states[MS-F corpus files (structural requirements + self-test only)]", 1);
            let mut abuf = Aligned::new(&[]);
            match guarded(|| cur::write_cache(bytes)) {
                Ok(Ok(cb)) => {
                    acc.observations += 1;
                    let v = structural(&cb).map(|d| acc.outcome(h64(&(d.classes.len(), d.members.len(), d.by_params.len())), true)).and_then(|_| selftest(&cb, &mut abuf));
                    if let Err((sig, desc)) = v {
                        acc.violation(sig, bytes.len(), || (format!("{}: {}", name, desc), json!({"kind":"corpus","file":name,"oracle":"C09"})));
                    }
                }
                Ok(Err(e)) => acc.violation("write:error", bytes.len(), || (e.clone(), json!({"kind":"corpus","file":name}))),
                Err(p) => acc.violation(format!("panic:{}", panic_site(&p)), bytes.len(), || (p.clone(), json!({"kind":"corpus","file":name}))),
            }
        }
    });
    sections_pass(&mut acc);
    acc.count("caches written from section(a..b)", 1);
    acc.transitions += acc.observations;
    let meta = RunMeta {
        prop: "C09",
        tier,
        level: "model_checking",
        rule: "states = mappings (all histories of the listed scopes + string-length family + corpus files + every section(a..b) of four small texts with multi-byte characters, whose cache must equal the cache of those bytes); in every state the real writer's bytes are decoded by the independent decoder and compared with the counts, orders and record contents the model derives from the AST; the library's self-test is run on every file. distinct = distinct (classes, members, by-params, string bytes) shapes; non-trivial = files with >= 1 member entry".into(),
        bounds: json!({"scopes": spaces.iter().map(|s| { let mut d = s.describe(); if d.get("alphabet").is_some() { d["alphabet"] = json!("see pgmc/src/e1.rs"); } d }).collect::<Vec<_>>(), "corpus_files": corpus.len()}),
        assumptions: vec!["string uniqueness in the string section is not demanded (the statement does not)".into(), "the class entry's own file-name field is only required to be absent or a valid string".into()],
        trusted_base: vec!["rustc/std".into(), "independent decoder pgmc/src/dec.rs (written from the format documentation)".into(), "reference model pgmc/src/model.rs".into()],
    };
    finish(meta, acc, &budget, &|c| recheck(c))
}

/// sections: the cache written from parent.section(a..b) is byte for byte the cache written from a fresh mapping over
/// those bytes - also when the section starts or ends inside a multi-byte character of a text that is valid UTF-8 as
/// a whole. (Sections that cut a line are outside the representable domain - empty names - so the layout clauses are
/// not applied to them; the comparison is.)
fn sections_pass(acc: &mut Acc) {
    for text in super::c06::SECTION_TEXTS {
        let s = text.as_bytes();
        for a in 0..=s.len() {
            for b in a..=s.len() {
                acc.states += 1;
                acc.observations += 1;
                let r = guarded(|| (cur::write_cache_section(s, a, b), cur::write_cache(&s[a..b])));
                match r {
                    Ok((Ok(sec), Ok(fresh))) => {
                        if sec != fresh {
                            acc.violation("section:cache-differs-from-fresh-mapping", b - a, || (format!("the cache written from section({}..{}) of {:?} differs from the cache written from a fresh mapping over those bytes", a, b, esc(s)), json!({"kind":"sections"})));
                        }
                    }
                    Ok((x, y)) => {
                        if x.is_err() != y.is_err() {
                            acc.violation("section:write-error-differs", b - a, || (format!("section({}..{}) of {:?}: {:?} / {:?}", a, b, esc(s), x.err(), y.err()), json!({"kind":"sections"})));
                        }
                    }
                    Err(p) => acc.violation(format!("panic:{}", panic_site(&p)), b - a, || (format!("section({}..{}) of {:?}: {}", a, b, esc(s), p), json!({"kind":"sections"}))),
                }
            }
        }
    }
}

pub fn recheck(case: &Value) -> Vec<String> {
    let mut acc = Acc::new();
    if case["kind"] == "sections" {
        sections_pass(&mut acc);
        return acc.violations.keys().cloned().collect();
    }
    if case["kind"] == "corpus" {
        let name = case["file"].as_str().unwrap_or("");
        if let Ok(bytes) = std::fs::read(name) {
            let mut abuf = Aligned::new(&[]);
            if let Ok(Ok(cb)) = guarded(|| cur::write_cache(&bytes)) {
                if let Err((sig, _)) = structural(&cb).map(|_| ()).and_then(|_| selftest(&cb, &mut abuf)) {
                    return vec![sig];
                }
            }
        }
        return vec![];
    }
    let (lines, term) = file_from_json(case);
    let mut ctx = Ctx::new();
    visit(&lines, term, &mut ctx, &mut acc);
    acc.violations.keys().cloned().collect()
}
