//! C16: valid JVM descriptors deobfuscate to the right Java types, invalid ones to none.
use crate::ast::*;
use crate::fw::*;
use crate::model::Model;
use crate::subj::{cur, OSig, Subj};
use serde_json::{json, Value};

/// descriptor AST
#[derive(Clone, Debug, PartialEq)]
enum Ty {
    Prim(char),
    Obj(String),
    Arr(Box<Ty>),
}

const TYPES6: [&str; 10] = ["I", "[J", "La/b;", "LI;", "Lx/Long;", "[[L\u{e9}/\u{dc};", "La/b$b;", "La/b$;", "Ljava/util/a;", "[[Ljavax/inject/b;"];
const TYPES8: [&str; 12] = ["I", "[J", "La/b;", "LI;", "Lx/Long;", "[[L\u{e9}/\u{dc};", "Z", "[La/b;", "La/b$b;", "La/b$;", "Ljava/util/a;", "[[Ljavax/inject/b;"];
pub const EDIT_CHARS: [char; 10] = ['(', ')', 'L', ';', '[', 'I', 'V', '\u{e9}', '/', 'x'];

fn prim_name(c: char) -> Option<&'static str> {
    Some(match c {
        'Z' => "boolean",
        'B' => "byte",
        'C' => "char",
        'S' => "short",
        'I' => "int",
        'J' => "long",
        'F' => "float",
        'D' => "double",
        _ => return None,
    })
}

/// JVM field type at the start of `s`; returns the type and the rest
fn field_type(s: &str) -> Result<(Ty, &str), Bad> {
    let mut it = s.chars();
    match it.next() {
        None => Err(Bad::Other),
        Some('[') => field_type(it.as_str()).map(|(t, r)| (Ty::Arr(Box::new(t)), r)),
        Some('L') => {
            let body = it.as_str();
            match body.find(';') {
                None => Err(Bad::UnterminatedObject),
                Some(i) => {
                    let name = &body[..i];
                    if name.is_empty() || name.chars().any(|c| c == '[' || c == '.' || c == '(' || c == ')') {
                        Err(Bad::Other)
                    } else {
                        Ok((Ty::Obj(name.to_string()), &body[i + 1..]))
                    }
                }
            }
        }
        Some(c) if prim_name(c).is_some() => Ok((Ty::Prim(c), it.as_str())),
        Some(_) => Err(Bad::Other),
    }
}

#[derive(Debug, PartialEq, Clone, Copy)]
enum Bad {
    /// one of the statement's "yield no result" categories
    NoParenList,
    NoReturnType,
    UnterminatedObject,
    /// malformed in some other way: no claim
    Other,
}

/// JVM method descriptor grammar: '(' FieldType* ')' (FieldType | 'V')
fn parse_descriptor(s: &str) -> Result<(Vec<Ty>, Option<Ty>), Bad> {
    let Some(body) = s.strip_prefix('(') else { return Err(Bad::NoParenList) };
    let Some(close) = body.rfind(')') else { return Err(Bad::NoParenList) };
    let (params, ret) = (&body[..close], &body[close + 1..]);
    if ret.is_empty() {
        return Err(Bad::NoReturnType);
    }
    let mut v = Vec::new();
    let mut rest = params;
    while !rest.is_empty() {
        let (t, r) = field_type(rest)?;
        v.push(t);
        rest = r;
    }
    if ret == "V" {
        return Ok((v, None));
    }
    let (t, r) = field_type(ret)?;
    if !r.is_empty() {
        return Err(Bad::Other);
    }
    Ok((v, Some(t)))
}

/// R14
fn java_type(t: &Ty, model: &Model) -> String {
    match t {
        Ty::Prim(c) => prim_name(*c).unwrap().to_string(),
        Ty::Arr(inner) => format!("{}[]", java_type(inner, model)),
        Ty::Obj(n) => {
            let dotted = n.replace('/', ".");
            match model.class(&dotted) {
                Some(o) => o.to_string(),
                None => dotted,
            }
        }
    }
}

/// C16 pins the answer for this string (a valid descriptor, or one of the statement's must-be-none kinds); for every
/// other string the releases may differ without the *file* meaning anything else (used by C10)
pub fn pinned_by_c16(s: &str) -> bool {
    !matches!(parse_descriptor(s), Err(Bad::Other))
}

fn expected(s: &str, model: &Model) -> Result<OSig, Bad> {
    let (ps, r) = parse_descriptor(s)?;
    let params: Vec<String> = ps.iter().map(|t| java_type(t, model)).collect();
    let ret = r.as_ref().map(|t| java_type(t, model)).unwrap_or_else(|| "void".to_string());
    let mut formatted = format!("({})", params.join(", "));
    if r.is_some() {
        formatted.push_str(": ");
        formatted.push_str(&ret);
    }
    Ok(OSig { params, ret, formatted })
}

fn sig_mappings() -> Vec<(&'static str, Vec<Line>)> {
    vec![
        ("empty", vec![]),
        ("S1 (maps a.b, I, \u{e9}.\u{dc})", vec![class("orig.Mapped", "a.b"), class("orig.PrimI", "I"), class("o.Umlaut", "\u{e9}.\u{dc}"), method(None, None, "p", "", Orig::None, "m"), class("com.example.ShimOne", "java.util.a"), class("com.example.ShimTwo", "javax.inject.b")]),
        ("S2 (maps near misses only)", vec![class("q.One", "a.bb"), class("q.Two", "a"), class("q.Three", "x.Lon"), class("q.Four", "a/b")]),
    ]
}

struct Built {
    label: &'static str,
    bytes: Vec<u8>,
    model: Model,
}

/// class-table family: obfuscated class names that differ in '.', '$', '-' or a non-ASCII character at the same place
/// (their byte order, segment-wise order and the order of their '/'-forms all differ)
const TABLE_POOL: [&str; 14] = ["a", "a.a", "a.a.a", "a.a$a", "a.a-a", "a.aa", "a.a$", "a$a", "a$a.a", "A.a", "\u{e9}.a", "a.\u{e9}", "a.a.b", "a.a$b"];

/// every ordered selection of <= 3 pool names, and the whole pool ascending / descending / as listed, as class tables
/// (class i maps to `o.C<i>`); label = "T:" + the names joined by ','
fn table_mappings() -> Vec<Vec<&'static str>> {
    let mut v: Vec<Vec<&'static str>> = Vec::new();
    let n = TABLE_POOL.len();
    for a in 0..n {
        v.push(vec![TABLE_POOL[a]]);
        for b in 0..n {
            if b == a {
                continue;
            }
            v.push(vec![TABLE_POOL[a], TABLE_POOL[b]]);
            for c in 0..n {
                if c == a || c == b {
                    continue;
                }
                v.push(vec![TABLE_POOL[a], TABLE_POOL[b], TABLE_POOL[c]]);
            }
        }
    }
    let mut all: Vec<&'static str> = TABLE_POOL.to_vec();
    v.push(all.clone());
    all.sort();
    v.push(all.clone());
    all.reverse();
    v.push(all);
    v
}
fn table_lines(names: &[&'static str]) -> Vec<Line> {
    names.iter().map(|n| class(leak(&format!("o.C{}", TABLE_POOL.iter().position(|p| p == n).unwrap_or(99))), n)).collect()
}
fn table_descriptors() -> Vec<String> {
    let mut v = Vec::new();
    for n in TABLE_POOL {
        let sl = n.replace('.', "/");
        v.push(format!("(L{};)V", sl));
        v.push(format!("([L{};I)L{};", sl, sl));
    }
    v.push("(La/a/;La/;L/a;)V".into());
    v
}
/// class names that are legal in a descriptor (anything but . ; [ /) and contain the separators an implementation might
/// use internally when it joins or prints parameter lists
const SPECIAL_NAMES: [&str; 20] = ["a/b$$ExternalSyntheticLambda0", "a/b$$x", "a/b$$", "I$$x", "p/q<K, V>", "a, b", "a,b", "a b", "a: b", "a:b", " a", "a ", "-a", "a\"b", "a'b", "a\\b", "a\tb", "a|b", ",", ": "];
fn special_name_descriptors() -> Vec<String> {
    let mut v = Vec::new();
    // every number of array dimensions 1..=300 (between the exhaustive depths and the long-signature family)
    for n in 1..=300usize {
        v.push(format!("({}D)V", "[".repeat(n)));
        v.push(format!("(I){}La/b;", "[".repeat(n)));
    }
    for n in SPECIAL_NAMES {
        v.push(format!("(L{};I)V", n));
        v.push(format!("(IL{};)L{};", n, n));
        v.push(format!("([L{};L{};)[[L{};", n, n, n));
        v.push(format!("()L{};", n));
    }
    v
}
fn table_family(acc: &mut Acc, budget: &Budget) {
    let descs = table_descriptors();
    let mut ab = Aligned::new(&[]);
    for (label, lines) in sig_mappings() {
        let b = Built { label, bytes: print_file(&lines, Term::Lf), model: Model::fold(&lines) };
        let _ = cur::with_subjects(&b.bytes, &mut ab, |m, _, c, _| {
            for d in special_name_descriptors() {
                check_sig(&b, &d, m, c, acc);
            }
        });
    }
    for names in table_mappings() {
        if budget.exceeded() {
            return;
        }
        let lines = table_lines(&names);
        let b = Built { label: leak(&format!("T:{}", names.join(","))), bytes: print_file(&lines, Term::Lf), model: Model::fold(&lines) };
        let r = cur::with_subjects(&b.bytes, &mut ab, |m, _, c, _| {
            for d in &descs {
                check_sig(&b, d, m, c, acc);
            }
        });
        if let Err(e) = r {
            acc.violation("sig:table-family:build", names.len(), || (e.clone(), json!({"kind":"sig","mapping":b.label,"signature":"","expected":"mapper and cache can be built","observed":e})));
        }
        acc.count("class tables of the table family", 1);
    }
}

fn check_sig(b: &Built, s: &str, mapper: &dyn Subj, cache: &dyn Subj, acc: &mut Acc) {
    acc.states += 1;
    let exp = expected(s, &b.model);
    let case = |g: String| json!({"kind":"sig","mapping":b.label,"mapping_text":esc(&b.bytes),"signature":s,"expected":format!("{:?}", exp),"observed":g});
    let r = guarded(|| (mapper.deobfuscate_signature(s), cache.deobfuscate_signature(s)));
    acc.observations += 2;
    acc.transitions += 2;
    match r {
        Err(p) => acc.violation(format!("panic:{}", panic_site(&p)), s.len(), || (p.clone(), case(p.clone()))),
        Ok((m, c)) => {
            if m != c {
                acc.violation("sig:mapper-vs-cache", s.len(), || (format!("deobfuscate_signature({:?}): mapper {:?} cache {:?}", s, m, c), case(format!("mapper {:?} cache {:?}", m, c))));
            }
            match &exp {
                Ok(e) => {
                    acc.outcome(h64(e), true);
                    acc.count("valid descriptors (compared with R14)", 1);
                    for (lab, got) in [("mapper", &m), ("cache", &c)] {
                        if got.as_ref() != Some(e) {
                            let field = match got {
                                None => "none",
                                Some(g) if g.params != e.params => "params",
                                Some(g) if g.ret != e.ret => "return",
                                _ => "formatted",
                            };
                            acc.violation(format!("sig:valid:{}:{}", lab, field), s.len(), || (format!("deobfuscate_signature({:?}) on {} with mapping {}: expected {:?} got {:?}", s, lab, b.label, e, got), case(format!("{:?}", got))));
                        }
                    }
                }
                Err(Bad::Other) => {
                    acc.outcome(h64(&("noclaim", m.is_some())), false);
                    acc.count("strings outside the grammar and outside the must-be-none categories (mapper == cache and no panic only)", 1);
                }
                Err(kind) => {
                    acc.outcome(h64(&format!("{:?}", kind)), false);
                    acc.count("strings in a must-be-none category", 1);
                    for (lab, got) in [("mapper", &m), ("cache", &c)] {
                        if got.is_some() {
                            acc.violation(format!("sig:invalid:{}:{:?}", lab, kind), s.len(), || (format!("deobfuscate_signature({:?}) on {}: {:?} must yield no result, got {:?}", s, lab, kind, got), case(format!("{:?}", got))));
                        }
                    }
                }
            }
        }
    }
}

fn descriptors(types: &[&str], max_params: usize) -> Vec<String> {
    let mut v = Vec::new();
    let mut rets: Vec<&str> = types.to_vec();
    rets.push("V");
    let mut seqs: Vec<String> = vec![String::new()];
    let mut frontier: Vec<String> = vec![String::new()];
    for _ in 0..max_params {
        let mut nx = Vec::new();
        for f in &frontier {
            for t in types {
                nx.push(format!("{}{}", f, t));
            }
        }
        seqs.extend(nx.iter().cloned());
        frontier = nx;
    }
    for p in &seqs {
        for r in &rets {
            v.push(format!("({}){}", p, r));
        }
    }
    // 0..6 parameters as a one-type family
    for t in types {
        for n in 4..=6 {
            v.push(format!("({})V", t.repeat(n)));
        }
    }
    // array dimensions and parameter counts around 127/128/255/256 (and the long signatures of C13)
    for n in [1usize, 2, 127, 128, 129, 130, 255, 256, 257] {
        v.push(format!("({}I)V", "[".repeat(n)));
        v.push(format!("(){}La/b;", "[".repeat(n)));
        v.push(format!("(I{}Lx/Long;J)I", "[".repeat(n)));
    }
    for s in crate::props::c13::long_signatures() {
        if s.len() < 3000 {
            v.push(s);
        }
    }
    // parameter COUNTS around 127/128 and 255/256 for one- and two-slot types and their arrays
    for n in [126usize, 127, 128, 129, 254, 255, 256] {
        for ty in ["J", "D", "[J", "[D", "[[D", "La/b;", "[I"] {
            v.push(format!("({})V", ty.repeat(n)));
            v.push(format!("(I{}Lx/Long;)[J", ty.repeat(n)));
        }
    }
    v
}

fn edits(s: &str) -> Vec<String> {
    let chars: Vec<char> = s.chars().collect();
    let mut v = Vec::new();
    for i in 0..chars.len() {
        let mut d = chars.clone();
        d.remove(i);
        v.push(d.iter().collect());
        for c in EDIT_CHARS {
            if chars[i] != c {
                let mut x = chars.clone();
                x[i] = c;
                v.push(x.iter().collect());
            }
        }
    }
    for i in 0..=chars.len() {
        for c in EDIT_CHARS {
            let mut x = chars.clone();
            x.insert(i, c);
            v.push(x.iter().collect());
        }
    }
    v
}

enum Work {
    Desc(usize, usize),
    Strings(Vec<usize>, usize),
}

pub fn run(tier: Tier) -> i32 {
    crate::subj::SIG_PROTOCOL.store(true, std::sync::atomic::Ordering::Relaxed);
    let t = tier.thorough();
    let budget = Budget::new(if t { 14 * 60 } else { 50 });
    let descs = if t { descriptors(&TYPES8, 4) } else { descriptors(&TYPES6, 3) };
    let strdepth = if t { 7 } else { 6 };
    let mut work = Vec::new();
    let mut i = 0;
    while i < descs.len() {
        work.push(Work::Desc(i, (i + 32).min(descs.len())));
        i += 32;
    }
    work.push(Work::Strings(vec![], 1));
    for a in 0..EDIT_CHARS.len() {
        for b in 0..EDIT_CHARS.len() {
            work.push(Work::Strings(vec![a, b], strdepth));
        }
    }
    let ndesc = descs.len();
    let acc = par_run(&work, &budget, |w, acc, budget| {
        let builts: Vec<Built> = sig_mappings().into_iter().map(|(label, lines)| Built { label, bytes: print_file(&lines, Term::Lf), model: Model::fold(&lines) }).collect();
        let mut abs: Vec<Aligned> = (0..3).map(|_| Aligned::new(&[])).collect();
        let (a0, rest) = abs.split_at_mut(1);
        let (a1, a2) = rest.split_at_mut(1);
        cur::with_subjects(&builts[0].bytes, &mut a0[0], |m0, _, c0, _| {
            cur::with_subjects(&builts[1].bytes, &mut a1[0], |m1, _, c1, _| {
                cur::with_subjects(&builts[2].bytes, &mut a2[0], |m2, _, c2, _| {
                    let subs: [(&Built, &dyn Subj, &dyn Subj); 3] = [(&builts[0], m0, c0), (&builts[1], m1, c1), (&builts[2], m2, c2)];
                    match w {
                        Work::Desc(a, b) => {
                            for d in &descs[*a..*b] {
                                if budget.exceeded() {
                                    return;
                                }
                                for (bu, m, c) in subs.iter() {
                                    check_sig(bu, d, *m, *c, acc);
                                }
                                // single-character edits: for descriptors of up to 64 characters
                                if d.len() <= 64 {
                                    for e in edits(d) {
                                        for (bu, m, c) in subs.iter() {
                                            check_sig(bu, &e, *m, *c, acc);
                                        }
                                    }
                                }
                                if d.len() <= 64 {
                                    acc.sample(2, || json!({"descriptor": d, "single_edit_corruptions": edits(d).len(), "mappings": 3}));
                                }
                            }
                        }
                        Work::Strings(first, depth) => {
                            fn dfs(s: &mut String, left: usize, subs: &[(&Built, &dyn Subj, &dyn Subj); 3], acc: &mut Acc, budget: &Budget) {
                                // all strings over the 10-character alphabet: mapping S1 only (the others add nothing for non-descriptors)
                                check_sig(subs[1].0, s, subs[1].1, subs[1].2, acc);
                                if left == 0 || budget.exceeded() {
                                    return;
                                }
                                for c in EDIT_CHARS {
                                    let l = s.len();
                                    s.push(c);
                                    dfs(s, left - 1, subs, acc, budget);
                                    s.truncate(l);
                                }
                            }
                            let mut s: String = first.iter().map(|&i| EDIT_CHARS[i]).collect();
                            let left = if first.is_empty() { *depth } else { depth - first.len() };
                            dfs(&mut s, left, &subs, acc, budget);
                        }
                    }
                })
                .unwrap()
            })
            .unwrap()
        })
        .unwrap();
    });
    let meta = RunMeta {
        prop: "C16",
        tier,
        level: "model_checking",
        rule: format!("(every answer is read through return_type(), parameters_types(), format_signature() AND Display; with >= 2 parameters the parameters_types() iterator is also consumed through nth / skip / step_by / last / count / size_hint; plus the handle-history pass of props/hist.rs: a second cache / mapper created in the memory of a dropped one) all {} descriptors with <= {} parameters over the type alphabet (primitive, primitive array, mapped object, object named like a primitive, unmapped object containing 'L', nested non-ASCII object array, unmapped names a/b$b and a/b$ whose '$'-prefix is mapped, mapped classes whose obfuscated name lies in java. / javax.{}), plus array dimensions / parameter counts / name lengths of 127..257 and 1000 x every return type incl. V, plus 4..6 parameters of one type; plus descriptors whose class names contain ', ' / ',' / blanks / ': ' / quotes / backslash / tab; plus the class-table family (every ordered selection of <= 3 of 14 obfuscated class names that differ in '.', '$', '-' or a non-ASCII character at one place, and the whole pool in three orders, as class tables x a descriptor naming each pool name); every single-character deletion, substitution and insertion (10-character alphabet) of each; all strings of <= {} characters over that alphabet; x 3 mappings x {{mapper, cache}}. Oracle: an independent JVM-descriptor parser + R14 (valid => exact parameter list, return type and formatted signature; no parenthesised list / no return type / unterminated object type => none; otherwise only mapper == cache and no panic). distinct = distinct expected results", ndesc, if t { 4 } else { 3 }, if t { ", Z, object array" } else { "" }, strdepth),
        bounds: json!({"descriptors": ndesc, "string_depth": strdepth, "edit_alphabet": EDIT_CHARS.iter().map(|c| c.to_string()).collect::<Vec<_>>(), "mappings": sig_mappings().iter().map(|(l, m)| json!({"label": l, "text": esc(&print_file(m, Term::Lf))})).collect::<Vec<_>>()}),
        assumptions: vec!["a class name inside L...; may not contain [ . ( ) (JVM spec + parenthesis-free so that the parameter list is unambiguous); such strings get no claim".into()],
        trusted_base: vec!["rustc/std".into(), "descriptor parser and R14 in pgmc/src/props/c16.rs".into(), "reference model pgmc/src/model.rs (class lookup R8)".into()],
    };
    let mut acc = acc;
    table_family(&mut acc, &budget);
    {
        // handle-history pass: handles parsed from recycled memory (props/hist.rs)
        let mut h = Acc::new();
        super::hist::reuse_history(&mut h);
        acc.merge(h);
    }
    finish(meta, acc, &budget, &|c| recheck(c))
}

pub fn recheck(case: &Value) -> Vec<String> {
    crate::subj::SIG_PROTOCOL.store(true, std::sync::atomic::Ordering::Relaxed);
    if case["kind"] == "reuse-history" {
        return super::hist::recheck(case);
    }
    let mut acc = Acc::new();
    let label = case["mapping"].as_str().unwrap_or("");
    let sig = case["signature"].as_str().unwrap_or("").to_string();
    let mut all = sig_mappings();
    if let Some(names) = label.strip_prefix("T:") {
        let names: Vec<&'static str> = names.split(',').map(|n| leak(n)).collect();
        all.push((leak(label), table_lines(&names)));
    }
    for (l, lines) in all {
        if l == label {
            let b = Built { label: l, bytes: print_file(&lines, Term::Lf), model: Model::fold(&lines) };
            let mut ab = Aligned::new(&[]);
            cur::with_subjects(&b.bytes, &mut ab, |m, _, c, _| check_sig(&b, &sig, m, c, &mut acc)).unwrap();
        }
    }
    acc.violations.keys().cloned().collect()
}
