//! C15 / E5 "sinkfault": cache writing is independent of sink chunking and propagates sink errors.
//! Deviation-bounded exploration of sink behaviours: the sink is a script "call index -> answer" with
//! default *accept everything*; run, record the calls made, branch on every later call with every
//! alternative while the deviation budget lasts; always to completion.
use crate::ast::*;
use crate::fw::*;
use crate::subj::cur;
use serde_json::{json, Value};
use std::io::{Error, ErrorKind, Write};

#[derive(Clone, Copy, Debug, PartialEq, Eq, Hash)]
pub enum Ans {
    /// accept at most k bytes
    Short(usize),
    /// Ok(0)
    Zero,
    Interrupted,
    /// non-retryable failure; sticky
    Hard,
    /// non-retryable failure for this one call; later calls are accepted again
    HardOnce,
    /// `ErrorKind::WouldBlock` for this one call (what a non-blocking sink says): like every error other than
    /// `Interrupted` it must fail the write - a writer that retries it must not re-send what was already accepted
    WouldBlockOnce,
}

struct ScriptedSink<'a> {
    script: &'a [(usize, Ans)],
    /// uniform limit: accept at most k bytes per call (0 = unlimited)
    limit: usize,
    calls: Vec<(usize, Option<Ans>)>,
    accepted: Vec<u8>,
    failed: bool,
    vectored_calls: usize,
}

impl Write for ScriptedSink<'_> {
    fn write(&mut self, buf: &[u8]) -> std::io::Result<usize> {
        let idx = self.calls.len();
        if self.failed {
            self.calls.push((buf.len(), Some(Ans::Hard)));
            return Err(Error::new(ErrorKind::Other, "sink is broken (sticky)"));
        }
        let ans = self.script.iter().find(|(i, _)| *i == idx).map(|(_, a)| *a);
        self.calls.push((buf.len(), ans));
        match ans {
            None => {
                let n = if self.limit > 0 { buf.len().min(self.limit) } else { buf.len() };
                self.accepted.extend_from_slice(&buf[..n]);
                Ok(n)
            }
            Some(Ans::Short(k)) => {
                let n = k.min(buf.len());
                self.accepted.extend_from_slice(&buf[..n]);
                Ok(n)
            }
            Some(Ans::Zero) => Ok(0),
            Some(Ans::Interrupted) => Err(Error::new(ErrorKind::Interrupted, "interrupted")),
            Some(Ans::Hard) => {
                self.failed = true;
                Err(Error::new(ErrorKind::Other, "injected hard failure"))
            }
            Some(Ans::HardOnce) => Err(Error::new(ErrorKind::Other, "injected hard failure (this call only)")),
            Some(Ans::WouldBlockOnce) => Err(Error::new(ErrorKind::WouldBlock, "would block (this call only)")),
        }
    }
    fn flush(&mut self) -> std::io::Result<()> {
        Ok(())
    }
    /// a natively gathering sink: the buffers count as one request; a short answer may end inside any of them
    fn write_vectored(&mut self, bufs: &[std::io::IoSlice<'_>]) -> std::io::Result<usize> {
        let all: Vec<u8> = bufs.iter().flat_map(|b| b.iter().copied()).collect();
        self.vectored_calls += 1;
        self.write(&all)
    }
}

struct Run {
    calls: Vec<(usize, Option<Ans>)>,
    accepted: Vec<u8>,
    ok: bool,
}

fn execute(mapping: &[u8], script: &[(usize, Ans)], limit: usize) -> Result<Run, String> {
    let mut sink = ScriptedSink { script, limit, calls: Vec::new(), accepted: Vec::new(), failed: false, vectored_calls: 0 };
    let r = guarded(|| cur::ProguardCache::write(&cur::ProguardMapping::new(mapping), &mut sink).is_ok())?;
    // divergence while replaying a prefix is a hard machinery error (a burst of Interrupted answers that the
    // writer does not consume completely is not a divergence: the writer may legitimately or wrongly stop earlier)
    let burst = script.len() >= 2 && script.iter().all(|(_, a)| *a == Ans::Interrupted);
    for (i, _) in script {
        if !burst && *i >= sink.calls.len() {
            eprintln!("MACHINERY-ERROR: sink script index {} beyond the {} calls made (nondeterministic replay)", i, sink.calls.len());
            std::process::exit(2);
        }
    }
    Ok(Run { calls: sink.calls, accepted: sink.accepted, ok: r })
}

fn ans_json(a: &Ans) -> Value {
    match a {
        Ans::Short(k) => json!({"short": k}),
        Ans::Zero => json!("ok0"),
        Ans::Interrupted => json!("interrupted"),
        Ans::Hard => json!("hard-error"),
        Ans::HardOnce => json!("hard-error-once"),
        Ans::WouldBlockOnce => json!("would-block-once"),
    }
}
fn ans_from(v: &Value) -> Ans {
    if let Some(k) = v.get("short").and_then(|k| k.as_u64()) {
        Ans::Short(k as usize)
    } else {
        match v.as_str().unwrap_or("") {
            "ok0" => Ans::Zero,
            "interrupted" => Ans::Interrupted,
            "hard-error-once" => Ans::HardOnce,
            "would-block-once" => Ans::WouldBlockOnce,
            _ => Ans::Hard,
        }
    }
}

fn check(lines: &[Line], mapping: &[u8], canonical: &[u8], script: &[(usize, Ans)], limit: usize, acc: &mut Acc) -> Option<Run> {
    acc.states += 1;
    acc.transitions += 1;
    let case = |obs: String| {
        let mut c = file_to_json(lines, Term::Lf);
        c["oracle"] = json!("C15");
        c["script"] = json!(script.iter().map(|(i, a)| json!({"call": i, "answer": ans_json(a)})).collect::<Vec<_>>());
        c["uniform_limit"] = json!(limit);
        c["observed"] = json!(obs);
        c
    };
    let size = mapping.len() + script.len();
    let run = match execute(mapping, script, limit) {
        Ok(r) => r,
        Err(p) => {
            acc.violation(format!("panic:{}", panic_site(&p)), size, || (p.clone(), case(p.clone())));
            return None;
        }
    };
    acc.observations += 1;
    let fatal = script.iter().any(|(_, a)| matches!(a, Ans::Hard | Ans::HardOnce | Ans::WouldBlockOnce | Ans::Zero));
    let is_prefix = canonical.starts_with(&run.accepted);
    acc.outcome(h64(&(run.ok, run.accepted.len(), run.calls.len())), !script.is_empty() || limit > 0);
    if run.ok && run.accepted != canonical {
        let kind = if run.accepted.len() < canonical.len() { "short" } else { "different" };
        acc.violation(format!("sink:ok-but-{}", kind), size, || {
            let d = format!("write reported success but the sink accepted {} bytes, the canonical serialisation has {} (prefix: {})", run.accepted.len(), canonical.len(), is_prefix);
            (d.clone(), case(d))
        });
    }
    if fatal && run.ok {
        acc.violation("sink:error-swallowed", size, || {
            let d = "the sink reported a non-retryable failure (or accepted 0 bytes) but write reported success".to_string();
            (d.clone(), case(d))
        });
    }
    if !is_prefix {
        acc.violation("sink:not-a-prefix", size, || {
            let d = format!("the bytes delivered to the sink ({}) are not a prefix of the canonical serialisation", run.accepted.len());
            (d.clone(), case(d))
        });
    }
    if !run.ok && !fatal {
        // only short writes / interruptions: a correct writer retries and succeeds
        acc.violation("sink:spurious-failure", size, || {
            let d = "write failed although the sink only answered with short writes / Interrupted".to_string();
            (d.clone(), case(d))
        });
    }
    Some(run)
}

fn alternatives(len: usize) -> Vec<Ans> {
    let mut v = Vec::new();
    for k in [1usize, 2, 3, len.saturating_sub(3), len.saturating_sub(2), len.saturating_sub(1)] {
        if k > 0 && k < len && !v.contains(&Ans::Short(k)) {
            v.push(Ans::Short(k));
        }
    }
    if len > 0 {
        v.push(Ans::Zero);
    }
    v.push(Ans::Interrupted);
    v.push(Ans::Hard);
    v.push(Ans::HardOnce);
    v.push(Ans::WouldBlockOnce);
    v
}

fn explore(lines: &[Line], mapping: &[u8], canonical: &[u8], script: &mut Vec<(usize, Ans)>, left: usize, acc: &mut Acc, budget: &Budget) {
    let Some(run) = check(lines, mapping, canonical, script, 0, acc) else { return };
    if left == 0 || budget.exceeded() {
        return;
    }
    // after a sticky hard failure every later call fails anyway: no further branching is meaningful
    if script.iter().any(|(_, a)| *a == Ans::Hard) {
        return;
    }
    let start = script.last().map(|(i, _)| i + 1).unwrap_or(0);
    for i in start..run.calls.len() {
        for alt in alternatives(run.calls[i].0) {
            script.push((i, alt));
            explore(lines, mapping, canonical, script, left - 1, acc, budget);
            script.pop();
        }
    }
}

/// 16 mappings: each of the three padding sites is / is not exercised (odd / even class, member and
/// by-params counts), plus a file without classes
pub fn subjects() -> Vec<Vec<Line>> {
    let mut v: Vec<Vec<Line>> = vec![vec![]];
    let cn: [(S, S); 4] = [("p.A", "a"), ("p.B", "b"), ("p.C", "c"), ("p.D", "d")];
    for nc in 1..=3usize {
        for nm in 0..=2usize {
            for dup in [false, true] {
                if dup && nm == 0 {
                    continue;
                }
                let mut f = Vec::new();
                for c in 0..nc {
                    f.push(class(cn[c].0, cn[c].1));
                    if c == 0 {
                        for k in 0..nm {
                            f.push(method(Some((1 + k as u64, 2 + k as u64)), None, ["p", "q"][k], ["", "int"][k], Orig::SE(3, 4), "m"));
                        }
                        if dup {
                            // a duplicate: one more member, no additional by-params entry
                            f.push(method(Some((1, 2)), None, "p", "", Orig::SE(3, 4), "m"));
                        }
                    }
                }
                v.push(f);
            }
        }
    }
    v.push(vec![class("x.Outer$Inner", "b"), Line::SourceFile("R8$$SyntheticClass"), method(Some((3, 6)), Some("q.F"), "p", "a.B,int[]", Orig::S(9), "m")]);
    v
}

pub fn run(tier: Tier) -> i32 {
    let t = tier.thorough();
    let budget = Budget::new(if t { 14 * 60 } else { 50 });
    let bound = if t { 5 } else { 4 };
    let subs = subjects();
    // work items: (subject, first deviation call index) so that the bound-3 sweep parallelises
    let mut work: Vec<(usize, Option<usize>)> = Vec::new();
    for (si, l) in subs.iter().enumerate() {
        work.push((si, None));
        let mapping = print_file(l, Term::Lf);
        if let Ok(r) = execute(&mapping, &[], 0) {
            for i in 0..r.calls.len() {
                work.push((si, Some(i)));
            }
        }
    }
    // big subjects (class table beyond 4 KiB / 64 KiB): deviation bound 1 + the uniform sinks
    let nsmall = subs.len();
    let mut subs = subs;
    for (l, _) in crate::families::huge_family(0).files.iter().take(if t { 4 } else { 2 }) {
        subs.push(l.clone());
    }
    // two very large subjects (20000 / 40000 classes: beyond any plausible batch or buffer size of a writer): deviation
    // bound 1 at a fixed selection of calls only (first four, middle, every 5000th, last four)
    let nhuge_from = subs.len();
    for n in [20000usize, 40000] {
        let mut f = Vec::with_capacity(n + 2);
        for i in 0..n {
            f.push(class(leak(&format!("o.C{}", i)), leak(&format!("c{:05}", i))));
        }
        f.push(method(None, None, "p", "", Orig::None, "m"));
        subs.push(f);
    }
    for si in nsmall..subs.len() {
        work.push((si, None));
        let mapping = print_file(&subs[si], Term::Lf);
        if let Ok(r) = execute(&mapping, &[], 0) {
            // every call of the default run as the single deviation point, in chunks
            let n = r.calls.len();
            let mut i = 0;
            while i < n {
                if si < nhuge_from || i < 4 || i + 4 >= n || i == n / 2 || i % 5000 == 0 {
                    work.push((si, Some(i)));
                }
                i += 1;
            }
        }
    }
    let nsub = subs.len();
    let acc = par_run(&work, &budget, |&(si, first), acc, budget| {
        let bound = if si >= nsmall { 1 } else { bound };
        let lines = &subs[si];
        let mapping = print_file(lines, Term::Lf);
        let canonical = match guarded(|| cur::write_cache(&mapping)) {
            Ok(Ok(c)) => c,
            _ => {
                acc.violation("write:failed", 0, || ("cannot write the canonical file".into(), file_to_json(lines, Term::Lf)));
                return;
            }
        };
        match first {
            None => {
                // 0 deviations + the uniform sinks "at most k bytes per call"
                check(lines, &mapping, &canonical, &[], 0, acc);
                for k in (1..=16).chain([37usize, 4095, 4096, 4097, 65535, 65536]) {
                    if k > 16 && canonical.len() < k {
                        continue;
                    }
                    check(lines, &mapping, &canonical, &[], k, acc);
                    // and a uniform sink with one hard failure in the middle
                    let mid = canonical.len() / (2 * k.max(1));
                    check(lines, &mapping, &canonical, &[(mid, Ans::Hard)], k, acc);
                }
                // bursts of consecutive Interrupted answers (a bounded retry loop would give up): at every call of the default run
                if let Ok(base) = execute(&mapping, &[], 0) {
                    if base.calls.len() <= 40 {
                        for i in 0..base.calls.len() {
                            for n in [2usize, 99, 100, 101, 1000] {
                                let script: Vec<(usize, Ans)> = (i..i + n).map(|k| (k, Ans::Interrupted)).collect();
                                check(lines, &mapping, &canonical, &script, 0, acc);
                            }
                        }
                    }
                }
                acc.sample(1, || json!({"mapping": esc(&mapping), "canonical_len": canonical.len(), "calls_with_default_sink": execute(&mapping, &[], 0).map(|r| r.calls.iter().map(|c| c.0).collect::<Vec<_>>()).unwrap_or_default()}));
            }
            Some(i) => {
                let Ok(base) = execute(&mapping, &[], 0) else { return };
                for alt in alternatives(base.calls[i].0) {
                    let mut script = vec![(i, alt)];
                    explore(lines, &mapping, &canonical, &mut script, bound - 1, acc, budget);
                }
            }
        }
    });
    let meta = RunMeta {
        prop: "C15",
        tier,
        level: "fault_enumeration",
        rule: format!("{} mappings (each padding site exercised / not exercised, 0 classes) x all sink scripts with <= {} deviations from 'accept everything' (per call: accept 1, 2, 3, len-3, len-2 or len-1 bytes; Ok(0); Interrupted; sticky hard error; hard error for that one call only; WouldBlock for that one call only), enumerated by run-record-branch to completion, plus {} big subjects (147 / 300 / 2340 / 2341 classes with deviation bound 1 at every call; 20000 / 40000 classes with deviation bound 1 at the first four, the middle, every 5000th and the last four calls); plus uniform sinks accepting at most k = 1..16, 37, 4095..4097, 65535, 65536 bytes per call with and without a hard failure in the middle. Oracle: Ok => accepted bytes == canonical; hard failure or Ok(0) injected => Err; accepted bytes always a prefix of canonical; short writes / Interrupted alone never make the write fail. Bursts of 2 / 99 / 100 / 101 / 1000 consecutive Interrupted answers at every call. The sink implements write_vectored natively (a gathered request counts as one call). evaluations = scripts executed; distinct = distinct (result, accepted length, number of calls)", nsmall, bound, nsub - nsmall),
        bounds: json!({"mappings": nsub, "deviation_bound": bound, "alternatives_per_call": "short(1,2,3,len-3..len-1), Ok(0), Interrupted, hard (sticky), hard (once), WouldBlock (once)"}),
        assumptions: vec!["canonical = the bytes the same build writes into a Vec".into(), "Ok(0) on a non-empty buffer counts as a non-retryable failure (std::io::Write::write_all reports WriteZero)".into()],
        trusted_base: vec!["rustc/std".into(), "the scripted sink in pgmc/src/props/c15.rs".into()],
    };
    crate::props::e4::finish_fault(meta, acc, &budget, &|c| recheck(c))
}

pub fn recheck(case: &Value) -> Vec<String> {
    let (lines, _) = file_from_json(case);
    let mapping = print_file(&lines, Term::Lf);
    let script: Vec<(usize, Ans)> = case["script"].as_array().map(|a| a.iter().map(|e| (e["call"].as_u64().unwrap_or(0) as usize, ans_from(&e["answer"]))).collect()).unwrap_or_default();
    let limit = case["uniform_limit"].as_u64().unwrap_or(0) as usize;
    let mut acc = Acc::new();
    if let Ok(Ok(canonical)) = guarded(|| cur::write_cache(&mapping)) {
        check(&lines, &mapping, &canonical, &script, limit, &mut acc);
    }
    acc.violations.keys().cloned().collect()
}
