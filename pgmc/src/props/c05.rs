//! C05: well-formed mapping lines parse to exactly their parts; malformed ones error.
//! (a) every record AST over small alphabets, printed and parsed alone (4 terminators) and inside a file;
//! (b) every documented malformation of those lines; (c) all strings of <= N tokens over a 12-token
//! alphabet against an independent recogniser of the documented grammar.
use crate::ast::*;
use crate::fw::*;
use crate::props::c02::corpus_files;
use crate::subj::cur::{ProguardMapping, ProguardRecord};
use serde_json::{json, Value};

const IDENTS: [S; 10] = ["a", "a.b.C", "a$b", "<init>", "-$$Lambda$1", "int[]", "\u{e9}.\u{dc}", "x1", "Map$Entry", "a-b"];
const NUMS: [u64; 4] = [0, 1, 7, 1 << 40];
const ARGS: [S; 4] = ["", "int", "a.B,int[]", "\u{e9}"];
const TERMS4: [&[u8]; 4] = [b"", b"\n", b"\r\n", b"\n\n"];

/// lines that follow the line under test inside a file: they contain every delimiter the grammar uses
/// (':', '(', ')', ' -> ', '"', '}', '#'), so a scan that runs past the end of its line finds something to hold on to
const FOLLOW: &[u8] = b"    7:8:ret.T w.X.late(a.B,int):9:10 -> y\n# {\"id\":\"sourceFile\",\"fileName\":\"L.kt\"}\n# key: value\nw.Late -> l:\n";
const FOLLOW_ITEMS: usize = 4;
fn follow_intact(items: &[Result<ProguardRecord<'_>, proguard::ParseError<'_>>]) -> bool {
    matches!(
        items,
        [Ok(ProguardRecord::Method { ty: "ret.T", original: "late", obfuscated: "y", arguments: "a.B,int", original_class: Some("w.X"), line_mapping: Some(_) }), Ok(ProguardRecord::Header { key: "sourceFile", value: Some("L.kt") }), Ok(ProguardRecord::Header { key: "key", value: Some("value") }), Ok(ProguardRecord::Class { original: "w.Late", obfuscated: "l" })]
    )
}

/// compare a parsed record with the AST line it was printed from
fn matches(rec: &ProguardRecord<'_>, line: &Line) -> Result<(), String> {
    match (*line, rec) {
        (Line::Class { orig, obf }, ProguardRecord::Class { original, obfuscated }) => {
            if *original == orig && *obfuscated == obf {
                Ok(())
            } else {
                Err(format!("class parts ({:?},{:?})", original, obfuscated))
            }
        }
        (Line::SourceFile(name), ProguardRecord::Header { key, value }) => {
            if *key == "sourceFile" && *value == Some(name) {
                Ok(())
            } else {
                Err(format!("header ({:?},{:?})", key, value))
            }
        }
        (Line::Header { key: k, value: v }, ProguardRecord::Header { key, value }) => {
            if *key == k.trim() && *value == v.map(|x| x.trim()) {
                Ok(())
            } else {
                Err(format!("header ({:?},{:?})", key, value))
            }
        }
        (Line::Field { ty: t, orig, obf }, ProguardRecord::Field { ty, original, obfuscated }) => {
            if *ty == t && *original == orig && *obfuscated == obf {
                Ok(())
            } else {
                Err(format!("field ({:?},{:?},{:?})", ty, original, obfuscated))
            }
        }
        (Line::Method { range, ty: t, cls, name, args, orig, obf }, ProguardRecord::Method { ty, original, obfuscated, arguments, original_class, line_mapping }) => {
            if *ty != t || *original != name || *obfuscated != obf || *arguments != args || *original_class != cls {
                return Err(format!("method parts ty {:?} original {:?} obfuscated {:?} arguments {:?} class {:?}", ty, original, obfuscated, arguments, original_class));
            }
            let usable = matches!(range, Some((s, e)) if s > 0 && e > 0);
            match (usable, line_mapping) {
                (false, None) => Ok(()),
                (true, Some(lm)) => {
                    let (s, e) = range.unwrap();
                    let (eos, eoe) = match orig {
                        Orig::None => (None, None),
                        Orig::S(a) => (Some(a as usize), None),
                        Orig::SE(a, b) => (Some(a as usize), Some(b as usize)),
                    };
                    if lm.startline as u64 == s && lm.endline as u64 == e && lm.original_startline == eos && lm.original_endline == eoe {
                        Ok(())
                    } else {
                        Err(format!("line mapping {:?}", lm))
                    }
                }
                (u, lm) => Err(format!("line mapping present={} but both obfuscated numbers positive={}", lm.is_some(), u)),
            }
        }
        (_, r) => Err(format!("wrong record kind {:?}", r)),
    }
}

fn check_line(line: &Line, acc: &mut Acc) {
    let printed = line.printed();
    acc.states += 1;
    let case = |ctx: &str, got: String| json!({"kind":"c05-line","line": line.to_json(), "text": esc(&printed), "context": ctx, "observed": got});
    let mut buf = Vec::with_capacity(printed.len() + 40);
    // (i) alone, with each terminator
    for term in TERMS4 {
        buf.clear();
        buf.extend_from_slice(&printed);
        buf.extend_from_slice(term);
        acc.transitions += 1;
        acc.observations += 1;
        match guarded(|| ProguardRecord::try_parse(&buf).map_err(|e| format!("{:?}", e.kind())).and_then(|r| matches(&r, line))) {
            Ok(Ok(())) => {}
            Ok(Err(d)) => acc.violation(format!("wellformed:alone:{}", kind_of(line)), printed.len(), || (format!("try_parse({:?}) -> {}", esc(&buf), d), case(&format!("alone, terminator {:?}", esc(term)), d.clone()))),
            Err(p) => acc.violation(format!("panic:{}", panic_site(&p)), printed.len(), || (p.clone(), case("alone", p.clone()))),
        }
    }
    // (ii) inside a file between two other records ("with any line terminator": LF, CRLF, lone CR, blank lines between)
    // the class line in front: an unrelated class and - for a method qualified with a class - that very class (a method
    // qualified with the name of its own class is still split at the last dot)
    let own: Option<Vec<u8>> = match line {
        Line::Method { cls: Some(c), .. } => Some(format!("{} -> q:", c).into_bytes()),
        _ => None,
    };
    let fronts: Vec<(&[u8], &str)> = match &own {
        Some(o) => vec![(&b"p.Q -> q:"[..], "p.Q"), (&o[..], "")],
        None => vec![(&b"p.Q -> q:"[..], "p.Q")],
    };
    for (front, front_orig) in fronts {
    for term in [&b"\n"[..], b"\r\n", b"\r", b"\n\n"] {
        if front_orig.is_empty() && term != b"\n" {
            continue;
        }
        buf.clear();
        buf.extend_from_slice(front);
        buf.extend_from_slice(term);
        buf.extend_from_slice(&printed);
        buf.extend_from_slice(term);
        buf.extend_from_slice(b"    int after -> z");
        buf.extend_from_slice(term);
        buf.extend_from_slice(FOLLOW);
        acc.transitions += 1;
        acc.observations += 1;
        let r = guarded(|| {
            let items: Vec<_> = ProguardMapping::new(&buf).iter().collect();
            if items.len() != 3 + FOLLOW_ITEMS {
                return Err(format!("{} items instead of {}", items.len(), 3 + FOLLOW_ITEMS));
            }
            match &items[1] {
                Ok(r) => matches(r, line)?,
                Err(e) => return Err(format!("error item {:?}", esc(e.line()))),
            }
            if !follow_intact(&items[3..]) {
                return Err(format!("the lines after it were disturbed: {:?}", &items[3..]));
            }
            match (&items[0], &items[2]) {
                (Ok(ProguardRecord::Class { original, obfuscated: "q" }), Ok(ProguardRecord::Field { ty: "int", original: "after", obfuscated: "z" })) if front_orig.is_empty() || *original == front_orig => Ok(()),
                other => Err(format!("neighbours disturbed: {:?}", other)),
            }
        });
        match r {
            Ok(Ok(())) => {}
            Ok(Err(d)) => acc.violation(format!("wellformed:in-file:{}", kind_of(line)), printed.len(), || (format!("in file {:?}: {}", esc(&buf), d), case("inside a file", d.clone()))),
            Err(p) => acc.violation(format!("panic:{}", panic_site(&p)), printed.len(), || (p.clone(), case("inside a file", p.clone()))),
        }
    }
    }
    acc.outcome(h64(&printed), true);
}

fn kind_of(l: &Line) -> &'static str {
    match l {
        Line::Class { .. } => "class",
        Line::SourceFile(_) | Line::Header { .. } => "header",
        Line::Field { .. } => "field",
        Line::Method { .. } => "method",
        Line::Noise(_) => "noise",
    }
}

/// documented malformations of a well-formed line: (label, malformed bytes)
fn malformations(line: &Line) -> Vec<(&'static str, Vec<u8>)> {
    let p = line.printed();
    let s = String::from_utf8_lossy(&p).to_string();
    let mut v: Vec<(&'static str, String)> = Vec::new();
    let is_member = matches!(line, Line::Field { .. } | Line::Method { .. });
    let is_class = matches!(line, Line::Class { .. });
    if is_member || is_class {
        if let Some(i) = s.rfind(" -> ") {
            let (a, b) = (&s[..i], &s[i + 4..]);
            v.push(("arrow-removed", format!("{} {}", a, b)));
            v.push(("arrow-unspaced", format!("{}->{}", a, b)));
            v.push(("arrow-no-space-after", format!("{} ->{}", a, b)));
            v.push(("arrow-no-space-before", format!("{}-> {}", a, b)));
        }
    }
    if is_class {
        v.push(("class-colon-removed", s[..s.len() - 1].to_string()));
        for k in [1usize, 2, 3] {
            v.push(("class-indented", format!("{}{}", " ".repeat(k), s)));
        }
    }
    if is_member {
        let body = &s[4..];
        for k in [0usize, 1, 2, 3, 5, 6, 7, 8] {
            v.push(("indentation", format!("{}{}", " ".repeat(k), body)));
        }
        v.push(("indentation-tab", format!("\t{}", body)));
    }
    if let Line::Method { range, ty, cls, name, args, orig, obf } = *line {
        if let Some((st, _)) = range {
            // start line without end line
            let mut l2 = Vec::new();
            Line::Method { range: None, ty, cls, name, args, orig, obf }.print_into(&mut l2);
            let rest = String::from_utf8_lossy(&l2[4..]).to_string();
            v.push(("start-without-end", format!("    {}:{}", st, rest)));
        }
        // return type removed
        let mut l3 = String::from("    ");
        if let Some((a, b)) = range {
            l3.push_str(&format!("{}:{}:", a, b));
        }
        if let Some(c) = cls {
            l3.push_str(c);
            l3.push('.');
        }
        l3.push_str(&format!("{}({})", name, args));
        match orig {
            Orig::None => {}
            Orig::S(a) => l3.push_str(&format!(":{}", a)),
            Orig::SE(a, b) => l3.push_str(&format!(":{}:{}", a, b)),
        }
        l3.push_str(&format!(" -> {}", obf));
        v.push(("return-type-removed", l3));
    }
    if let Line::Field { orig, obf, .. } = *line {
        v.push(("field-type-removed", format!("    {} -> {}", orig, obf)));
    }
    v.into_iter().map(|(l, s)| (l, s.into_bytes())).collect()
}

fn check_malformed(line: &Line, acc: &mut Acc) {
    let mut buf = Vec::new();
    for (label, bad) in malformations(line) {
        acc.states += 1;
        let case = |ctx: &str, got: String| json!({"kind":"c05-malformed","from": line.to_json(), "malformation": label, "text": esc(&bad), "context": ctx, "observed": got});
        for term in [&b""[..], b"\n", b"\r\n"] {
            buf.clear();
            buf.extend_from_slice(&bad);
            buf.extend_from_slice(term);
            acc.transitions += 1;
            acc.observations += 1;
            let r = guarded(|| match ProguardRecord::try_parse(&buf) {
                Ok(r) => Err(format!("parsed as a record: {:?}", r)),
                Err(e) => {
                    let l = e.line();
                    let t: &[u8] = {
                        let mut x = l;
                        while let Some((&c, rest)) = x.split_last() {
                            if c == b'\n' || c == b'\r' {
                                x = rest
                            } else {
                                break;
                            }
                        }
                        x
                    };
                    if t == &bad[..] {
                        Ok(())
                    } else {
                        Err(format!("error carries {:?} instead of the offending line", esc(l)))
                    }
                }
            });
            match r {
                Ok(Ok(())) => {}
                Ok(Err(d)) => acc.violation(format!("malformed:{}:alone", label), bad.len(), || (format!("try_parse({:?}): {}", esc(&buf), d), case("alone", d.clone()))),
                Err(p) => acc.violation(format!("panic:{}", panic_site(&p)), bad.len(), || (p.clone(), case("alone", p.clone()))),
            }
        }
        // inside a file, behind every terminator: exactly this line becomes an error item, neighbours intact
        for fterm in [&b"\n"[..], b"\r\n", b"\n\n", b"\r", b"\n\r\n"] {
            buf.clear();
            buf.extend_from_slice(b"p.Q -> q:\n");
            buf.extend_from_slice(&bad);
            buf.extend_from_slice(fterm);
            buf.extend_from_slice(b"    int after -> z\n");
            buf.extend_from_slice(FOLLOW);
            acc.transitions += 1;
            acc.observations += 1;
            let r = guarded(|| {
                let items: Vec<_> = ProguardMapping::new(&buf).iter().collect();
                if items.len() != 3 + FOLLOW_ITEMS {
                    return Err(format!("{} items instead of {}: {:?}", items.len(), 3 + FOLLOW_ITEMS, items));
                }
                if !follow_intact(&items[3..]) {
                    return Err(format!("the lines after the malformed one were disturbed: {:?}", &items[3..]));
                }
                match &items[1] {
                    Ok(r) => Err(format!("parsed as a record: {:?}", r)),
                    Err(e) => {
                        // "carrying the offending line": the line itself, with or without its terminator (LF, CR or CRLF)
                        let mut carried = e.line();
                        while let Some((&c, rest)) = carried.split_last() {
                            if c == b'\n' || c == b'\r' {
                                carried = rest;
                            } else {
                                break;
                            }
                        }
                        if carried == &bad[..] {
                            Ok(())
                        } else {
                            Err(format!("error carries {:?}", esc(e.line())))
                        }
                    }
                }
                .and(match (&items[0], &items[2]) {
                    (Ok(ProguardRecord::Class { .. }), Ok(ProguardRecord::Field { original: "after", .. })) => Ok(()),
                    other => Err(format!("neighbours disturbed: {:?}", other)),
                })
            });
            match r {
                Ok(Ok(())) => {}
                Ok(Err(d)) => acc.violation(format!("malformed:{}:in-file{}", label, if fterm == b"\n" { "" } else { ":terminator" }), bad.len(), || (format!("in file {:?}: {}", esc(&buf), d), case("inside a file", d.clone()))),
                Err(p) => acc.violation(format!("panic:{}", panic_site(&p)), bad.len(), || (p.clone(), case("inside a file", p.clone()))),
            }
        }
        acc.outcome(h64(&(label, &bad)), true);
    }
}

// ---------------------------------------------------------------------------------------------
// (c) independent recogniser of the documented grammar
//
//   class  :  NAME " -> " NAME ":"
//   field  :  "    " NAME " " NAME " -> " NAME
//   method :  "    " [NUM ":" NUM ":"] NAME " " NAME "(" ARGS ")" [":" NUM [":" NUM]] " -> " NAME
//   header :  "#" anything
//   NAME   :  one or more characters other than space : ( ) # and line terminators, not starting with a
//             digit, without leading / trailing / doubled '.', not containing "->"  (deliberately narrower than what tools emit, so
//             that a claim is made only for clearly well-formed lines)

pub const C_TOKENS: [&str; 12] = ["    ", "a", "b.c", "1", ":", " ", "(", ")", " -> ", ".", "#", "\u{e9}"];

#[derive(Debug, PartialEq, Clone)]
enum Rec {
    Class(String, String),
    Field(String, String, String),
    Method { range: Option<(u64, u64)>, ty: String, cls: Option<String>, name: String, args: String, os: Option<u64>, oe: Option<u64>, obf: String },
    Header(String, Option<String>),
}

fn is_name(s: &str) -> bool {
    // "->" never occurs inside a Java name; a NAME containing it is an arrow that lost its spaces
    if s.is_empty() || s.starts_with('.') || s.ends_with('.') || s.contains("..") || s.contains("->") {
        return false;
    }
    if s.chars().next().unwrap().is_ascii_digit() {
        return false;
    }
    !s.chars().any(|c| c == ' ' || c == ':' || c == '(' || c == ')' || c == '#' || c == '\n' || c == '\r' || c == ',')
}
fn is_num(s: &str) -> Option<u64> {
    if s.is_empty() || !s.bytes().all(|b| b.is_ascii_digit()) {
        return None;
    }
    s.parse().ok()
}

fn recognise(s: &str) -> Option<Rec> {
    if let Some(rest) = s.strip_prefix('#') {
        return Some(match rest.split_once(':') {
            Some((k, v)) => Rec::Header(k.trim().to_string(), Some(v.trim().to_string())),
            None => Rec::Header(rest.trim().to_string(), None),
        });
    }
    if let Some(body) = s.strip_prefix("    ") {
        let (lhs, obf) = body.rsplit_once(" -> ")?;
        if !is_name(obf) || lhs.contains(" -> ") {
            return None;
        }
        if let Some(open) = lhs.find('(') {
            // method
            let close = lhs.rfind(')')?;
            if close < open {
                return None;
            }
            let (head, args, tail) = (&lhs[..open], &lhs[open + 1..close], &lhs[close + 1..]);
            if !(args.is_empty() || args.split(',').all(is_name)) {
                return None;
            }
            let (os, oe) = if tail.is_empty() {
                (None, None)
            } else {
                let t = tail.strip_prefix(':')?;
                match t.split_once(':') {
                    Some((a, b)) => (Some(is_num(a)?), Some(is_num(b)?)),
                    None => (Some(is_num(t)?), None),
                }
            };
            // head = [NUM:NUM:]TYPE SP [CLASS.]NAME
            let (range, rest) = {
                let mut it = head.splitn(3, ':');
                let (a, b, c) = (it.next(), it.next(), it.next());
                match (a, b, c) {
                    (Some(a), Some(b), Some(c)) if is_num(a).is_some() && is_num(b).is_some() => (Some((is_num(a)?, is_num(b)?)), c),
                    (Some(_), None, None) => (None, head),
                    _ => return None,
                }
            };
            let (ty, full) = rest.split_once(' ')?;
            if !is_name(ty) || !is_name(full) {
                return None;
            }
            let (cls, name) = match full.rsplit_once('.') {
                Some((c, n)) => (Some(c.to_string()), n.to_string()),
                None => (None, full.to_string()),
            };
            return Some(Rec::Method { range, ty: ty.to_string(), cls, name, args: args.to_string(), os, oe, obf: obf.to_string() });
        }
        let (ty, orig) = lhs.split_once(' ')?;
        if !is_name(ty) || !is_name(orig) {
            return None;
        }
        return Some(Rec::Field(ty.to_string(), orig.to_string(), obf.to_string()));
    }
    let body = s.strip_suffix(':')?;
    let (orig, obf) = body.split_once(" -> ")?;
    if is_name(orig) && is_name(obf) {
        return Some(Rec::Class(orig.to_string(), obf.to_string()));
    }
    None
}

/// a documented malformation of some grammar line? (inverse of the documented edits)
fn documented_malformed(s: &str) -> Option<&'static str> {
    if s.starts_with('#') || recognise(s).is_some() {
        return None;
    }
    // indentation other than four spaces
    let k = s.len() - s.trim_start_matches(' ').len();
    let rest = &s[k..];
    if k != 4 && k <= 8 && !rest.is_empty() {
        if matches!(recognise(&format!("    {}", rest)), Some(Rec::Field(..)) | Some(Rec::Method { .. })) {
            return Some("indentation");
        }
        if k > 0 && k < 4 && matches!(recognise(rest), Some(Rec::Class(..))) {
            return Some("class-indented");
        }
    }
    // missing class colon
    if k == 0 && matches!(recognise(&format!("{}:", s)), Some(Rec::Class(..))) {
        return Some("class-colon-removed");
    }
    None
}

fn rec_matches(r: &ProguardRecord<'_>, e: &Rec) -> bool {
    match (r, e) {
        (ProguardRecord::Class { original, obfuscated }, Rec::Class(o, b)) => original == o && obfuscated == b,
        (ProguardRecord::Field { ty, original, obfuscated }, Rec::Field(t, o, b)) => ty == t && original == o && obfuscated == b,
        (ProguardRecord::Header { key, value }, Rec::Header(k, v)) => key == k && value.map(|x| x.to_string()) == *v,
        (ProguardRecord::Method { ty, original, obfuscated, arguments, original_class, line_mapping }, Rec::Method { range, ty: t, cls, name, args, os, oe, obf }) => {
            let base = ty == t && original == name && obfuscated == obf && arguments == args && original_class.map(|x| x.to_string()) == *cls;
            let usable = matches!(range, Some((s, e)) if *s > 0 && *e > 0);
            let lm_ok = match (usable, line_mapping) {
                (false, None) => true,
                (true, Some(lm)) => {
                    let (s, e) = range.unwrap();
                    lm.startline as u64 == s && lm.endline as u64 == e && lm.original_startline.map(|x| x as u64) == *os && lm.original_endline.map(|x| x as u64) == *oe
                }
                _ => false,
            };
            base && lm_ok
        }
        _ => false,
    }
}

fn check_token_string(s: &str, acc: &mut Acc) {
    acc.states += 1;
    acc.transitions += 1;
    let exp = recognise(s);
    let mal = if exp.is_none() { documented_malformed(s) } else { None };
    if exp.is_none() && mal.is_none() {
        acc.count("token strings with no claim (neither in the recogniser's grammar nor a documented malformation)", 1);
        // totality only
        if let Err(p) = guarded(|| ProguardRecord::try_parse(s.as_bytes()).is_ok()) {
            acc.violation(format!("panic:{}", panic_site(&p)), s.len(), || (p.clone(), json!({"kind":"c05-token","text":s})));
        }
        return;
    }
    acc.observations += 1;
    let r = guarded(|| match (ProguardRecord::try_parse(s.as_bytes()), &exp) {
        (Ok(r), Some(e)) => {
            if rec_matches(&r, e) {
                Ok(())
            } else {
                Err(("token:wrong-parts", format!("parsed {:?}, grammar says {:?}", r, e)))
            }
        }
        (Err(e), Some(x)) => Err(("token:wellformed-rejected", format!("rejected ({:?}), grammar says {:?}", e.kind(), x))),
        (Ok(r), None) => Err(("token:malformed-accepted", format!("documented malformation ({}) parsed as {:?}", mal.unwrap_or(""), r))),
        (Err(e), None) => {
            if e.line() == s.as_bytes() {
                Ok(())
            } else {
                Err(("token:error-line", format!("error carries {:?}", esc(e.line()))))
            }
        }
    });
    match r {
        Ok(Ok(())) => {
            if let Some(e) = &exp {
                acc.outcome(h64(&format!("{:?}", e)), true);
                acc.count("token strings in the grammar (parsed and compared)", 1);
            } else {
                acc.outcome(h64(&("malformed", mal)), false);
                acc.count("token strings that are documented malformations (must error)", 1);
            }
        }
        Ok(Err((sig, d))) => acc.violation(sig, s.len(), || (format!("{:?}: {}", s, d), json!({"kind":"c05-token","text":s,"observed":d}))),
        Err(p) => acc.violation(format!("panic:{}", panic_site(&p)), s.len(), || (p.clone(), json!({"kind":"c05-token","text":s}))),
    }
}

fn token_dfs(s: &mut String, left: usize, acc: &mut Acc, budget: &Budget) {
    check_token_string(s, acc);
    if left == 0 || budget.exceeded() {
        return;
    }
    for t in C_TOKENS {
        let l = s.len();
        s.push_str(t);
        token_dfs(s, left - 1, acc, budget);
        s.truncate(l);
    }
}

// ---------------------------------------------------------------------------------------------

fn line_space(thorough: bool) -> Vec<Line> {
    let mut v = Vec::new();
    // classes
    for o in IDENTS {
        for b in IDENTS {
            v.push(class(o, b));
        }
    }
    // headers
    for k in ["compiler", "min_api", "pg_map_id", "x y", "\u{e9}"] {
        v.push(Line::Header { key: k, value: None });
        for val in ["R8", "1.2.3", "a: b", "\u{e9}", "{\"id\":1}"] {
            v.push(Line::Header { key: k, value: Some(val) });
        }
    }
    // file names with backslashes (Windows paths; a trailing or doubled backslash must not be read as an escape), braces,
    // and the characters of the JSON frame itself except the closing quote
    for n in ["S.kt", "R8$$SyntheticClass", "a b.java", "\u{e9}.kt", "", "src\\", "C:\\dir\\F.java", "a\\\\", "\\", "a}b", "{x}", "a,b:c", "a\\n", "\u{e9}\\", " S.kt", "S.kt ", " ", "\tS.kt", "S.kt\u{a0}"] {
        v.push(Line::SourceFile(n));
    }
    // fields
    for t in IDENTS {
        for o in IDENTS {
            for b in ["a", "x1", "\u{e9}.\u{dc}", "-$$Lambda$1"] {
                v.push(Line::Field { ty: t, orig: o, obf: b });
            }
        }
    }
    // methods: every combination of the optional groups
    let mut ranges: Vec<Option<(u64, u64)>> = vec![None];
    for s in NUMS {
        for e in NUMS {
            ranges.push(Some((s, e)));
        }
    }
    let mut origs = vec![Orig::None];
    for a in NUMS {
        origs.push(Orig::S(a));
        for b in NUMS {
            origs.push(Orig::SE(a, b));
        }
    }
    let tys: &[S] = if thorough { &IDENTS } else { &["void", "a.b.C", "int[]", "\u{e9}.\u{dc}"] };
    let names: [S; 7] = ["a", "a$b", "<init>", "-$$Lambda$1", "x1", "\u{dc}", "a-b"];
    let clss: [Option<S>; 4] = [None, Some("a"), Some("a.b.C"), Some("\u{e9}.Map$Entry")];
    let obfs: &[S] = if thorough { &["a", "<init>", "x1", "\u{e9}", "a-b", "a.b"] } else { &["a", "<init>", "\u{e9}"] };
    // role family: one role at a time carries a special identifier - every special character of
    // families::special_chars() (all UTF-8 continuation bytes, all lead-byte classes, ASCII punctuation) in the
    // middle of a name, and long identifiers around the 1 KiB / 4 KiB / 64 KiB marks
    {
        let mut specials: Vec<S> = Vec::new();
        for c in crate::families::special_chars() {
            if matches!(c, '"') {
                continue;
            }
            specials.push(leak(&format!("x{}y", c)));
        }
        for l in [255usize, 1023, 1024, 1025, 4096, 65536] {
            specials.push(leak(&"k".repeat(l)));
        }
        let long_args: S = leak(&(0..60).map(|i| format!("java.lang.String{:06}", i)).collect::<Vec<_>>().join(","));
        for sp in &specials {
            let sp: S = sp;
            let no_comma_paren = !sp.contains(',');
            v.push(class(sp, "a"));
            v.push(class("a.B", sp));
            v.push(Line::Field { ty: sp, orig: "f", obf: "g" });
            v.push(Line::Field { ty: "int", orig: sp, obf: "g" });
            v.push(Line::Field { ty: "int", orig: "f", obf: sp });
            v.push(Line::Header { key: "compiler", value: Some(sp) });
            if !sp.contains(':') {
                v.push(Line::Header { key: sp, value: Some("v") });
            }
            for r in [None, Some((1u64, 2u64))] {
                let o = if r.is_some() { Orig::SE(3, 4) } else { Orig::None };
                v.push(Line::Method { range: r, ty: sp, cls: None, name: "n", args: "", orig: o, obf: "m" });
                v.push(Line::Method { range: r, ty: "void", cls: Some(sp), name: "n", args: "", orig: o, obf: "m" });
                v.push(Line::Method { range: r, ty: "void", cls: Some("a.B"), name: sp, args: "int", orig: o, obf: "m" });
                if no_comma_paren {
                    v.push(Line::Method { range: r, ty: "void", cls: None, name: "n", args: sp, orig: o, obf: "m" });
                }
                v.push(Line::Method { range: r, ty: "void", cls: None, name: "n", args: "", orig: o, obf: sp });
            }
        }
        v.push(Line::Method { range: Some((1, 2)), ty: "void", cls: Some("a.B"), name: "n", args: long_args, orig: Orig::SE(3, 4), obf: "m" });
        v.push(Line::SourceFile(leak(&"S".repeat(2000))));
        // argument COUNTS around 255/256 (and 1000), short argument names
        for n in [254usize, 255, 256, 257, 1000] {
            let a: S = leak(&vec!["int"; n].join(","));
            v.push(Line::Method { range: Some((1, 2)), ty: "void", cls: None, name: "n", args: a, orig: Orig::SE(3, 4), obf: "m" });
            v.push(Line::Method { range: None, ty: "void", cls: Some("a.B"), name: "n", args: a, orig: Orig::None, obf: "m" });
        }
    }
    for r in &ranges {
        for o in &origs {
            for ty in tys {
                for c in clss {
                    for n in names {
                        for a in ARGS {
                            for b in obfs {
                                v.push(Line::Method { range: *r, ty, cls: c, name: n, args: a, orig: *o, obf: b });
                            }
                        }
                    }
                }
            }
        }
    }
    v
}

/// a well-formed line after N consecutive malformed lines is still returned with exactly its parts
fn check_after_error_run(line: &Line, n: usize, acc: &mut Acc) {
    let mut buf: Vec<u8> = Vec::with_capacity(n * 9 + 200);
    for _ in 0..n {
        buf.extend_from_slice(b"garbage\n");
    }
    buf.extend_from_slice(&line.printed());
    buf.extend_from_slice(b"\n");
    buf.extend_from_slice(FOLLOW);
    acc.states += 1;
    acc.transitions += 1;
    acc.observations += 1;
    let r = guarded(|| {
        let mut it = ProguardMapping::new(&buf).iter();
        for k in 0..n {
            match it.next() {
                Some(Err(_)) => {}
                other => return Err(format!("item {} of the error run is {:?}", k, other.map(|x| x.is_ok()))),
            }
        }
        match it.next() {
            Some(Ok(r)) => matches(&r, line)?,
            other => return Err(format!("after {} malformed lines the well-formed line came back as {:?}", n, other)),
        }
        let rest: Vec<_> = it.collect();
        if follow_intact(&rest) {
            Ok(())
        } else {
            Err(format!("the lines after it were disturbed ({} items)", rest.len()))
        }
    });
    match r {
        Ok(Ok(())) => {}
        Ok(Err(d)) => acc.violation("wellformed:after-error-run", n, || (format!("{} malformed lines, then {:?}: {}", n, esc(&line.printed()), d), json!({"kind":"c05-after-run","line":line.to_json(),"n":n,"observed":d}))),
        Err(p) => acc.violation(format!("panic:{}", panic_site(&p)), n, || (p.clone(), json!({"kind":"c05-after-run","line":line.to_json(),"n":n}))),
    }
}

enum Work {
    AfterRun(usize),
    Lines(usize, usize),
    Tokens(Vec<usize>, usize),
    Corpus(usize),
}

pub fn run(tier: Tier) -> i32 {
    let t = tier.thorough();
    let budget = Budget::new(if t { 14 * 60 } else { 50 });
    let lines = line_space(t);
    let tok_depth = if t { 8 } else { 7 };
    let corpus = corpus_files();
    let chunk = 2048;
    let mut work = Vec::new();
    let mut i = 0;
    while i < lines.len() {
        work.push(Work::Lines(i, (i + chunk).min(lines.len())));
        i += chunk;
    }
    for n in [99usize, 100, 101, 999, 1000, 1001, 9999, 10000, 10001, 65536, 100001] {
        work.push(Work::AfterRun(n));
    }
    work.push(Work::Tokens(vec![], 2));
    for a in 0..C_TOKENS.len() {
        for b in 0..C_TOKENS.len() {
            for c in 0..C_TOKENS.len() {
                work.push(Work::Tokens(vec![a, b, c], tok_depth));
            }
        }
    }
    for i in 0..corpus.len() {
        work.push(Work::Corpus(i));
    }
    let nlines = lines.len();
    let mut acc = par_run(&work, &budget, |w, acc, budget| match w {
        Work::AfterRun(n) => {
            for l in [class("a.B", "c"), Line::Field { ty: "int", orig: "f", obf: "g" }, method(Some((1, 2)), Some("a.B"), "n", "int", Orig::SE(3, 4), "m"), Line::Header { key: "compiler", value: Some("R8") }, Line::SourceFile("S.kt")] {
                check_after_error_run(&l, *n, acc);
            }
        }
        Work::Lines(a, b) => {
            for (k, l) in lines[*a..*b].iter().enumerate() {
                if budget.exceeded() {
                    return;
                }
                check_line(l, acc);
                // malformations: for every non-method line, and for the method lines of a sub-family (every 7th)
                if !matches!(l, Line::Method { .. }) || (a + k) % 7 == 0 {
                    check_malformed(l, acc);
                }
                if matches!(l, Line::Method { range: Some(_), cls: Some(_), orig: Orig::SE(..), .. }) {
                    acc.sample(2, || json!({"line": esc(&l.printed()), "checked": "try_parse alone x 4 terminators, inside a file x 2 terminators; documented malformations"}));
                }
            }
        }
        Work::Tokens(first, depth) => {
            let mut s = String::new();
            for &i in first {
                s.push_str(C_TOKENS[i]);
            }
            if first.is_empty() {
                token_dfs(&mut s, *depth, acc, budget);
            } else {
                token_dfs(&mut s, depth - first.len(), acc, budget);
            }
        }
        Work::Corpus(i) => {
            // every line of the corpus: parsed alone it gives the same item as inside the file
            let (name, bytes) = &corpus[*i];
            let whole: Vec<_> = ProguardMapping::new(bytes).iter().collect();
            let mut k = 0usize;
            for raw in bytes.split(|b| *b == b'\n') {
                let l = raw.strip_suffix(b"\r").unwrap_or(raw);
                if l.is_empty() {
                    continue;
                }
                if budget.exceeded() {
                    acc.notes.push(format!("wall-clock cap hit inside corpus file {}", name));
                    return;
                }
                acc.states += 1;
                acc.transitions += 1;
                acc.observations += 1;
                let alone = ProguardRecord::try_parse(l);
                let infile = whole.get(k);
                k += 1;
                let same = match (&alone, infile) {
                    (Ok(a), Some(Ok(b))) => a == b,
                    (Err(_), Some(Err(_))) => true,
                    _ => false,
                };
                acc.outcome(h64(&format!("{:?}", alone.as_ref().ok())), alone.is_ok());
                if !same {
                    acc.violation("corpus:line-alone-vs-in-file", l.len(), || (format!("{} line {}: alone {:?} in file {:?}", name, k, alone, infile), json!({"kind":"c05-corpus","file":name,"line":esc(l)})));
                }
                // and: a recognised line parses to the recogniser's captures
                if let Ok(s) = std::str::from_utf8(l) {
                    if let (Some(e), Ok(r)) = (recognise(s), &alone) {
                        if !matches!(e, Rec::Header(..)) && !rec_matches(r, &e) {
                            acc.violation("corpus:wrong-parts", l.len(), || (format!("{}: {:?} parsed {:?}, grammar says {:?}", name, s, r, e), json!({"kind":"c05-token","text":s})));
                        }
                    }
                }
            }
            acc.count("corpus lines", k as u64);
        }
    });
    acc.transitions += 0;
    let meta = RunMeta {
        prop: "C05",
        tier,
        level: "model_checking",
        rule: format!("(a) every record AST of the line space ({} lines: identifiers x numbers x every combination of the optional groups) printed and parsed alone with terminators none/LF/CRLF/LFLF and inside a file (LF, CRLF) - the record must have exactly the AST's parts; (b) every documented malformation of those lines (all non-method lines, every 7th method line) must be an error carrying the offending line, alone and inside a file without disturbing the neighbours; (c) every string of <= {} tokens over the 12-token alphabet against an independent recogniser of the documented grammar (in grammar => Ok with the recogniser's captures; documented malformation => Err; otherwise no claim); (d) every line of the corpus parsed alone vs in its file; (e) five kinds of well-formed line after 99..100001 consecutive malformed lines; (f) the record iterator's protocol: on every file of <= 4 lines over an 8-line alphabet x 4 terminators, nth / skip / step_by / last / count / size_hint must agree with repeated next(). states = lines / malformed lines / token strings; distinct = distinct printed lines or recognised records", nlines, tok_depth),
        bounds: json!({"line_space": nlines, "token_depth": tok_depth, "tokens": C_TOKENS, "identifiers": IDENTS, "numbers": NUMS}),
        assumptions: vec!["the recogniser's NAME is deliberately narrower than what the parser accepts (no leading digit, no ',', no leading/trailing/doubled '.'); outside it no claim is made".into()],
        trusted_base: vec!["rustc/std".into(), "AST printer pgmc/src/ast.rs".into(), "independent recogniser in pgmc/src/props/c05.rs (no code shared with src/mapping.rs)".into()],
    };
    // (f) the record iterator's protocol (shared with C06): positional access sees the records of repeated next()
    let mut pa = Acc::new();
    super::c06::protocol_family(&mut pa);
    acc.merge(pa);
    finish(meta, acc, &budget, &|c| recheck(c))
}

pub fn recheck(case: &Value) -> Vec<String> {
    let mut acc = Acc::new();
    match case["kind"].as_str().unwrap_or("") {
        "protocol" => super::c06::protocol_one(&unesc(case["text"].as_str().unwrap_or("")), &mut acc),
        "c05-line" => check_line(&Line::from_json(&case["line"]), &mut acc),
        "c05-malformed" => check_malformed(&Line::from_json(&case["from"]), &mut acc),
        "c05-token" => check_token_string(case["text"].as_str().unwrap_or(""), &mut acc),
        "c05-after-run" => check_after_error_run(&Line::from_json(&case["line"]), case["n"].as_u64().unwrap_or(0) as usize, &mut acc),
        "c05-corpus" => {
            // re-run the file
            if let Ok(bytes) = std::fs::read(case["file"].as_str().unwrap_or("")) {
                let whole: Vec<_> = ProguardMapping::new(&bytes).iter().collect();
                let mut k = 0;
                for raw in bytes.split(|b| *b == b'\n') {
                    let l = raw.strip_suffix(b"\r").unwrap_or(raw);
                    if l.is_empty() {
                        continue;
                    }
                    let alone = ProguardRecord::try_parse(l);
                    let same = match (&alone, whole.get(k)) {
                        (Ok(a), Some(Ok(b))) => a == b,
                        (Err(_), Some(Err(_))) => true,
                        _ => false,
                    };
                    k += 1;
                    if !same {
                        return vec!["corpus:line-alone-vs-in-file".into()];
                    }
                }
            }
        }
        _ => {}
    }
    acc.violations.keys().cloned().collect()
}
