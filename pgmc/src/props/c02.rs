//! C02: cache == mapper on every query (differential oracle, no model), and mapper == mapper-with-index
//! on every line-based query. Scopes: every AST scope of E1, the token space MS-T and the corpus MS-F.
use crate::ast::*;
use crate::e1::*;
use crate::fw::*;
use crate::q::Universe;
use crate::subj::{cur, Fr, Subj};
use serde_json::{json, Value};

pub const MS_T_TOKENS: [&[u8]; 16] = [
    b"A -> a:\n",
    b"B -> b:\n",
    b"    1:2:void p():3:4 -> m\n",
    b"    1:2:void q():5 -> m\n",
    b"    void p() -> m\n",
    b"    3:4:void x.Y.r(int) -> n\n",
    b"    1:2:void p() -> n\n",
    b"# {\"id\":\"sourceFile\",\"fileName\":\"S.kt\"}\n",
    b"# sourceFile\n",
    b"# {\"id\":\"sourceFile\",\"fileName\":\"R8$$SyntheticClass\"}\n",
    b"    int f -> g\n",
    b"garbage\n",
    b"    ",
    b" -> ",
    b":",
    b"1",
];

/// universe of a byte-string mapping, via the implementation's own record iterator (trusted only as
/// far as C05/C06 check it); None = outside the representable domain of the property
pub fn universe_from_bytes(bytes: &[u8]) -> Option<Universe> {
    let mut classes: Vec<String> = Vec::new();
    let mut methods: Vec<String> = Vec::new();
    let mut params: Vec<String> = Vec::new();
    let mut consts: Vec<u64> = Vec::new();
    let lim = (1u64 << 32) - 1;
    let mut pu = |v: &mut Vec<String>, s: &str| {
        if !v.iter().any(|x| x == s) {
            v.push(s.to_string())
        }
    };
    for r in cur::ProguardMapping::new(bytes).iter() {
        match r {
            Ok(cur::ProguardRecord::Class { original, obfuscated }) => {
                if original.is_empty() || obfuscated.is_empty() {
                    return None;
                }
                pu(&mut classes, obfuscated);
                pu(&mut classes, original);
            }
            Ok(cur::ProguardRecord::Header { key, value }) => {
                if key == "sourceFile" && value == Some("") {
                    return None;
                }
            }
            Ok(cur::ProguardRecord::Method { original, obfuscated, arguments, original_class, line_mapping, .. }) => {
                if original.is_empty() || obfuscated.is_empty() || original_class == Some("") {
                    return None;
                }
                pu(&mut methods, obfuscated);
                pu(&mut methods, original);
                pu(&mut params, arguments);
                if let Some(c) = original_class {
                    pu(&mut classes, c);
                }
                if let Some(lm) = line_mapping {
                    for n in [Some(lm.startline), Some(lm.endline), lm.original_startline, lm.original_endline].into_iter().flatten() {
                        if n as u64 >= lim {
                            return None;
                        }
                        consts.push(n as u64);
                    }
                }
            }
            _ => {}
        }
    }
    consts.sort();
    consts.dedup();
    Some(Universe::from_names(classes, methods, params, &consts, false))
}

fn frs_eq(a: &[Fr<'_>], b: &[Fr<'_>]) -> bool {
    a == b
}
fn fr_json(f: &[Fr<'_>]) -> Value {
    json!(f.iter().map(|x| json!({"class":x.class,"method":x.method,"line":x.line as u64,"file":x.file,"params":x.params})).collect::<Vec<_>>())
}

/// the texts / signatures issued in every state (the deeper text, trace and descriptor spaces are C07/C08/C16's)
pub fn state_texts(uni: &Universe) -> (Vec<String>, Vec<String>) {
    let mut texts = Vec::new();
    let cls: Vec<&String> = uni.classes.iter().filter(|c| c.len() < 1000).take(4).collect();
    let ms: Vec<&String> = uni.methods.iter().filter(|c| c.len() < 1000).take(4).collect();
    let mut t = String::new();
    for (i, c) in cls.iter().enumerate() {
        if i == 0 {
            t.push_str(&format!("{}: boom\n", c));
        } else {
            t.push_str(&format!("Caused by: {}: inner {}\n", c, i));
        }
        for m in &ms {
            for l in uni.lines_short.iter() {
                t.push_str(&format!("    at {}.{}(F.java:{})\n", c, m, l));
            }
        }
        t.push_str("    at zz.Unknown.x(U.java:3)\n    ... 2 more\n");
        // an indented cause line with a known class, a frame with two colons, a known throwable with trailing blanks
        t.push_str(&format!("  Caused by: {}: indented\n\tCaused by: {}\n    at {}.m(F.java:2:5)\n{}  \n", c, c, c, c));
        t.push_str(&format!("\tSuppressed: {}: s\n\t\tat {}.x(F.java:1)\nSuppressed: {}\n[CIRCULAR REFERENCE: {}: c]\nWrapped by: {}: w\n", c, c, c, c, c));
    }
    texts.push(t);
    // a trace that starts with a frame, CRLF, no final newline
    if let (Some(c), Some(m)) = (cls.first(), ms.first()) {
        texts.push(format!("\tat {}.{}(F.java:1)\r\nCaused by: {}\r\n    at {}.{}(Unknown Source:2)", c, m, c, c, m));
    }
    let mut sigs = Vec::new();
    for c in &cls {
        let slashed = c.replace('.', "/");
        sigs.push(format!("(L{};[I)L{};", slashed, slashed));
        sigs.push(format!("([[L{};J)V", slashed));
    }
    sigs.push("()V".into());
    sigs.push("(Lzz/Unknown;)I".into());
    (texts, sigs)
}

/// Issue the whole query universe against mapper / mapper-with-index / cache and compare.
pub fn diff_subjects(
    uni: &Universe,
    mapper: &dyn Subj,
    mapper_p: &dyn Subj,
    cache: &dyn Subj,
    acc: &mut Acc,
    size: usize,
    case: &dyn Fn(Value, Value, Value) -> Value,
) {
    let mut a: Vec<Fr<'_>> = Vec::new();
    let mut b: Vec<Fr<'_>> = Vec::new();
    let mut seen_p: std::collections::HashSet<u64> = std::collections::HashSet::new();
    let mut seen_l: std::collections::HashSet<u64> = std::collections::HashSet::new();
    let mut c: Vec<Fr<'_>> = Vec::new();
    for class in uni.all_classes() {
        let (x, y, z) = (mapper.remap_class(class), mapper_p.remap_class(class), cache.remap_class(class));
        acc.observations += 2;
        acc.outcome(h64(&("class", x)), x.is_some());
        if x != z || x != y {
            acc.violation("diff:class", size, || {
                (format!("remap_class({:?}): mapper {:?} mapper-index {:?} cache {:?}", class, x, y, z), case(json!({"kind":"class","class":class}), json!(x), json!(z)))
            });
        }
        for msg in [None, Some("m: n")] {
            let (x, z) = (mapper.remap_throwable(class, msg), cache.remap_throwable(class, msg));
            acc.observations += 1;
            if x != z {
                acc.violation("diff:throwable", size, || {
                    (format!("remap_throwable({:?},{:?}): mapper {:?} cache {:?}", class, msg, x, z), case(json!({"kind":"throwable","class":class,"message":msg}), json!(format!("{:?}", x)), json!(format!("{:?}", z))))
                });
            }
        }
        for method in uni.all_methods() {
            let (x, y, z) = (mapper.remap_method(class, method), mapper_p.remap_method(class, method), cache.remap_method(class, method));
            acc.observations += 2;
            acc.outcome(h64(&("method", x)), x.is_some());
            if x != z || x != y {
                acc.violation("diff:method", size, || {
                    (
                        format!("remap_method({:?},{:?}): mapper {:?} mapper-index {:?} cache {:?}", class, method, x, y, z),
                        case(json!({"kind":"method","class":class,"method":method}), json!(format!("{:?}", x)), json!(format!("{:?}", z))),
                    )
                });
            }
            for params in &uni.params {
                mapper_p.remap_frame(class, method, 0, None, Some(params), &mut b);
                cache.remap_frame(class, method, 0, None, Some(params), &mut c);
                acc.observations += 1;
                acc.outcome(h64(&("byparams", &b[..])), !b.is_empty());
                if (!b.is_empty() || !c.is_empty()) && seen_p.insert(h64(&(class, method, b.len(), c.len(), b.iter().map(|f| (f.class.as_ptr() as usize, f.method.as_ptr() as usize)).collect::<Vec<_>>()))) {
                    for (lab, s) in [("mapper-index", mapper_p), ("cache", cache)] {
                        acc.observations += 1;
                        if let Some(d) = s.frame_protocol(class, method, 0, None, Some(params)) {
                            acc.violation(format!("diff:byparams:iterator-protocol:{}", lab), size, || {
                                (format!("remap_frame({:?},{:?},params {:?}) on {}: {}", class, method, params, lab, d), case(json!({"kind":"byparams","class":class,"method":method,"params":params}), json!("every way of consuming the iterator sees the sequence of repeated next()"), json!(d)))
                            });
                        }
                    }
                }
                if !frs_eq(&b, &c) {
                    acc.violation("diff:byparams", size, || {
                        (
                            format!("remap_frame({:?},{:?},params {:?}): mapper-index {} cache {}", class, method, params, fr_json(&b), fr_json(&c)),
                            case(json!({"kind":"byparams","class":class,"method":method,"params":params}), fr_json(&b), fr_json(&c)),
                        )
                    });
                }
            }
        }
    }
    for class in &uni.classes_affixed {
        let (x, z) = (mapper.remap_class(class), cache.remap_class(class));
        let m0 = uni.methods.first().map(|s| s.as_str()).unwrap_or("m");
        let (xm, zm) = (mapper.remap_method(class, m0), cache.remap_method(class, m0));
        acc.observations += 2;
        if x != z || xm != zm {
            acc.violation("diff:class-affixed", size, || (format!("lookup of {:?}: mapper {:?}/{:?} cache {:?}/{:?}", class, x, xm, z, zm), case(json!({"kind":"class","class":class}), json!(x), json!(z))));
        }
    }
    let files: [Option<&'static str>; 2] = [None, Some("F.java")];
    let mut byline = |class: &String, method: &String, line: usize, file: Option<&str>, acc: &mut Acc| {
        let file: Option<&str> = file.map(|f| unsafe { std::mem::transmute::<&str, &str>(f) });
        let class: &str = unsafe { std::mem::transmute::<&str, &str>(class.as_str()) };
        let method: &str = unsafe { std::mem::transmute::<&str, &str>(method.as_str()) };
        mapper.remap_frame(class, method, line, file, None, &mut a);
        mapper_p.remap_frame(class, method, line, file, None, &mut b);
        cache.remap_frame(class, method, line, file, None, &mut c);
        acc.observations += 2;
        acc.outcome(h64(&("byline", &a[..])), !a.is_empty());
        if (!a.is_empty() || !c.is_empty()) && seen_l.insert(h64(&(class, method, a.len(), c.len(), a.iter().map(|f| (f.class.as_ptr() as usize, f.method.as_ptr() as usize, f.line)).collect::<Vec<_>>()))) {
            for (lab, s) in [("mapper", mapper), ("cache", cache)] {
                acc.observations += 1;
                if let Some(d) = s.frame_protocol(class, method, line, file, None) {
                    acc.violation(format!("diff:byline:iterator-protocol:{}", lab), size, || {
                        (format!("remap_frame({:?},{:?},line {},file {:?}) on {}: {}", class, method, line, file, lab, d), case(json!({"kind":"byline","class":class,"method":method,"line":line as u64,"file":file}), json!("every way of consuming the iterator sees the sequence of repeated next()"), json!(d)))
                    });
                }
            }
        }
        if !frs_eq(&a, &c) {
            acc.violation("diff:byline", size, || {
                (
                    format!("remap_frame({:?},{:?},line {},file {:?}): mapper {} cache {}", class, method, line, file, fr_json(&a), fr_json(&c)),
                    case(json!({"kind":"byline","class":class,"method":method,"line":line as u64,"file":file}), fr_json(&a), fr_json(&c)),
                )
            });
        }
        if !frs_eq(&a, &b) {
            acc.violation("diff:byline-index-flag", size, || {
                (
                    format!("remap_frame({:?},{:?},line {},file {:?}): mapper {} mapper-with-index {}", class, method, line, file, fr_json(&a), fr_json(&b)),
                    case(json!({"kind":"byline-index-flag","class":class,"method":method,"line":line as u64,"file":file}), fr_json(&a), fr_json(&b)),
                )
            });
        }
    };
    for class in &uni.classes {
        for method in uni.all_methods() {
            for &line in &uni.lines {
                for file in files {
                    if file.is_some() && line > 200 {
                        continue;
                    }
                    byline(class, method, line, file, acc);
                }
            }
        }
    }
    for class in &uni.classes_other {
        for method in &uni.methods {
            for &line in &uni.lines_short {
                byline(class, method, line, None, acc);
            }
        }
    }
    for file in &uni.files_derived {
        for class in &uni.classes {
            for method in &uni.methods {
                for &line in &uni.lines_short {
                    byline(class, method, line, Some(file.as_str()), acc);
                }
            }
        }
    }
    let (texts, sigs) = state_texts(uni);
    for t in &texts {
        let (x, z) = (mapper.remap_stacktrace(t), cache.remap_stacktrace(t));
        acc.observations += 1;
        acc.outcome(h64(&("text", &x)), x.as_deref().map(|s| s != t).unwrap_or(false));
        if x != z {
            acc.violation("diff:stacktrace-text", size, || {
                (format!("remap_stacktrace differs: mapper {:?} cache {:?}", x, z), case(json!({"kind":"text","text":t}), json!(format!("{:?}", x)), json!(format!("{:?}", z))))
            });
        }
        let (x, z) = (mapper.remap_typed_text(t), cache.remap_typed_text(t));
        acc.observations += 1;
        if x != z {
            acc.violation("diff:stacktrace-typed", size, || {
                (
                    format!("remap_stacktrace_typed differs: mapper {:?} cache {:?}", x.as_ref().map(|v| &v.2), z.as_ref().map(|v| &v.2)),
                    case(json!({"kind":"typed","text":t}), json!(x.as_ref().map(|v| v.2.clone())), json!(z.as_ref().map(|v| v.2.clone()))),
                )
            });
        }
    }
    for s in &sigs {
        let (x, z) = (mapper.deobfuscate_signature(s), cache.deobfuscate_signature(s));
        acc.observations += 1;
        acc.outcome(h64(&("sig", &x)), x.is_some());
        if x != z {
            acc.violation("diff:signature", size, || {
                (format!("deobfuscate_signature({:?}): mapper {:?} cache {:?}", s, x, z), case(json!({"kind":"signature","signature":s}), json!(format!("{:?}", x)), json!(format!("{:?}", z))))
            });
        }
    }
}

/// Visit one mapping given as bytes.
pub fn visit_bytes(bytes: &[u8], unis: &[Universe], case0: &dyn Fn() -> Value, abuf: &mut Aligned, acc: &mut Acc) {
    acc.states += 1;
    let size = bytes.len();
    let case = |q: Value, exp: Value, got: Value| -> Value {
        let mut c = case0();
        c["oracle"] = json!("C02");
        c["query"] = q;
        c["expected"] = exp;
        c["observed"] = got;
        c
    };
    let r = guarded(|| {
        cur::with_subjects(bytes, abuf, |m, mp, c, _| {
            for uni in unis {
                diff_subjects(uni, m, mp, c, acc, size, &case)
            }
        })
    });
    match r {
        Ok(Ok(())) => {}
        Ok(Err(e)) => {
            let kind = e.split(':').next().unwrap_or("").replace(' ', "-");
            acc.violation(format!("pipeline:{}", kind), size, || (format!("building the subjects failed: {}", e), case(json!(null), json!("ok"), json!(e))));
        }
        Err(p) => {
            acc.violation(format!("panic:{}", panic_site(&p)), size, || (format!("panic: {}", p), case(json!(null), json!("no panic"), json!(p))));
        }
    }
}

fn bytes_case(bytes: &[u8]) -> Value {
    json!({"kind":"bytes","text": esc(bytes)})
}

struct TokItem {
    first: Vec<usize>,
    depth: usize,
}

fn tok_dfs(seq: &mut Vec<u8>, lens: &mut Vec<usize>, left: usize, budget: &Budget, f: &mut dyn FnMut(&[u8])) {
    f(seq);
    if left == 0 || budget.exceeded() {
        return;
    }
    for t in MS_T_TOKENS {
        lens.push(seq.len());
        seq.extend_from_slice(t);
        tok_dfs(seq, lens, left - 1, budget, f);
        let l = lens.pop().unwrap();
        seq.truncate(l);
    }
}

pub fn corpus_files() -> Vec<(String, Vec<u8>)> {
    let mut v = Vec::new();
    if let Ok(rd) = std::fs::read_dir(format!("{}/tests/res", crate::fw::repo_dir())) {
        let mut names: Vec<_> = rd.filter_map(|e| e.ok()).map(|e| e.path()).filter(|p| p.extension().map(|e| e == "txt").unwrap_or(false)).collect();
        names.sort();
        for p in names {
            if let Ok(b) = std::fs::read(&p) {
                v.push((p.to_string_lossy().to_string(), b));
            }
        }
    }
    v
}

/// Corpus visitor: subjects built once per file; for every class block the local universe
/// ({obfuscated, original} x the block's method names (+ near misses) x lines around the block's constants).
pub fn visit_corpus(name: &str, bytes: &[u8], acc: &mut Acc, budget: &Budget, shard: usize, nshards: usize) {
    let mut abuf = Aligned::new(&[]);
    let size = bytes.len();
    let r = guarded(|| {
        cur::with_subjects(bytes, &mut abuf, |m, mp, c, _| {
            // split into class blocks using the record iterator
            let mut blocks: Vec<(String, String, Vec<String>, Vec<String>, Vec<u64>)> = Vec::new();
            for r in cur::ProguardMapping::new(bytes).iter().flatten() {
                match r {
                    cur::ProguardRecord::Class { original, obfuscated } => blocks.push((obfuscated.to_string(), original.to_string(), vec![], vec![], vec![])),
                    cur::ProguardRecord::Method { original, obfuscated, arguments, line_mapping, .. } => {
                        if let Some(b) = blocks.last_mut() {
                            if !b.2.iter().any(|x| x == obfuscated) {
                                b.2.push(obfuscated.to_string());
                            }
                            if !b.2.iter().any(|x| x == original) {
                                b.2.push(original.to_string());
                            }
                            if !b.3.iter().any(|x| x == arguments) {
                                b.3.push(arguments.to_string());
                            }
                            if let Some(lm) = line_mapping {
                                for n in [Some(lm.startline), Some(lm.endline), lm.original_startline, lm.original_endline].into_iter().flatten() {
                                    b.4.push(n as u64);
                                }
                            }
                        }
                    }
                    _ => {}
                }
            }
            for (i, b) in blocks.iter().enumerate() {
                if i % nshards != shard {
                    continue;
                }
                if budget.exceeded() {
                    acc.notes.push(format!("wall-clock cap hit inside corpus file {}", name));
                    break;
                }
                let mut consts = b.4.clone();
                consts.sort();
                consts.dedup();
                // boundary lines of every entry (each constant +-1), not the whole 0..max interval
                let mut uni = Universe::from_names(vec![b.0.clone(), b.1.clone()], b.2.clone(), b.3.clone(), &[], false);
                let mut lines: Vec<usize> = vec![0, 1];
                for c in &consts {
                    for d in [c.saturating_sub(1), *c, c + 1] {
                        if !lines.contains(&(d as usize)) {
                            lines.push(d as usize);
                        }
                    }
                }
                lines.push(usize::MAX);
                uni.lines = lines;
                acc.states += 1;
                acc.count("states[MS-F corpus class blocks]", 1);
                let case = |q: Value, exp: Value, got: Value| -> Value { json!({"kind":"corpus","file":name,"oracle":"C02","query":q,"expected":exp,"observed":got}) };
                diff_subjects(&uni, m, mp, c, acc, size, &case);
            }
        })
    });
    match r {
        Ok(Ok(())) => {}
        Ok(Err(e)) => acc.violation("pipeline:corpus", size, || (format!("{}: {}", name, e), json!({"kind":"corpus","file":name}))),
        Err(p) => acc.violation(format!("panic:{}", panic_site(&p)), size, || (format!("{}: panic {}", name, p), json!({"kind":"corpus","file":name}))),
    }
}

enum Item {
    Ast(usize, usize),
    Tok(TokItem),
    Corpus(usize, usize, usize),
}

pub fn run(tier: Tier) -> i32 {
    let t = tier.thorough();
    let budget = Budget::new(if t { 14 * 60 } else { 50 });
    let spaces: Vec<Box<dyn Space>> = vec![
        Box::new(ms_a(2, t)),
        Box::new(ms_a_wide(if t { 2 } else { 1 })),
        Box::new(ms_a_large(1)),
        Box::new(ms_b(if t { 5 } else { 3 }, true)),
        Box::new(ms_b(5, false)),
        Box::new(ms_c()),
        Box::new(ms_d(t)),
        Box::new(crate::families::scale_family(true)),
        Box::new(crate::families::sorted_run_family()),
        Box::new(crate::families::r8_metadata_family()),
        Box::new(crate::families::file_header_family()),
        Box::new(crate::families::late_member_family()),
        Box::new(crate::families::unicode_family()),
        Box::new(crate::families::relation_family()),
        Box::new(crate::families::collision_family()),
        Box::new(crate::families::giant_family()),
        Box::new(ms_e(if t { 1 } else { 0 })),
        Box::new(ms_e_runs(if t { 1 } else { 0 })),
    ];
    let corpus = corpus_files();
    let mut items: Vec<Item> = Vec::new();
    for (si, s) in spaces.iter().enumerate() {
        for it in 0..s.n_items() {
            items.push(Item::Ast(si, it));
        }
    }
    let tdepth = if t { 6 } else { 5 };
    items.push(Item::Tok(TokItem { first: vec![], depth: 1 }));
    for a in 0..MS_T_TOKENS.len() {
        for b in 0..MS_T_TOKENS.len() {
            items.push(Item::Tok(TokItem { first: vec![a, b], depth: tdepth }));
        }
    }
    let cshards = 32;
    for (ci, _) in corpus.iter().enumerate() {
        for s in 0..cshards {
            items.push(Item::Corpus(ci, s, cshards));
        }
    }
    let acc = par_run(&items, &budget, |item, acc, budget| match item {
        Item::Ast(si, it) => {
            let sp = &spaces[*si];
            let mut ctx = Ctx::new();
            let mut last_len = 0usize;
            sp.run_item(*it, budget, &mut |lines, term| {
                acc.transitions += if lines.len() > last_len { (lines.len() - last_len) as u64 } else { 1 };
                last_len = lines.len();
                print_file_into(lines, term, &mut ctx.bytes);
                let unis = crate::q::universes_for(lines, sp.wide());
                let bytes = std::mem::take(&mut ctx.bytes);
                visit_bytes(&bytes, &unis, &|| file_to_json(lines, term), &mut ctx.abuf, acc);
                acc.sample(1, || json!({"scope": sp.name(), "mapping": esc(&bytes)}));
                ctx.bytes = bytes;
                acc.count(&format!("states[{}]", sp.name()), 1);
            });
        }
        Item::Tok(ti) => {
            let mut seq = Vec::new();
            for &i in &ti.first {
                seq.extend_from_slice(MS_T_TOKENS[i]);
            }
            let mut lens = Vec::new();
            let mut abuf = Aligned::new(&[]);
            tok_dfs(&mut seq, &mut lens, ti.depth - ti.first.len().min(ti.depth), budget, &mut |bytes| {
                acc.transitions += 1;
                acc.count("token strings enumerated [MS-T]", 1);
                match universe_from_bytes(bytes) {
                    None => acc.count("token strings outside the representable domain (skipped) [MS-T]", 1),
                    Some(uni) => {
                        visit_bytes(bytes, std::slice::from_ref(&uni), &|| bytes_case(bytes), &mut abuf, acc);
                        acc.count("states[MS-T token strings]", 1);
                        if uni.classes.len() >= 2 && !uni.methods.is_empty() {
                            acc.sample(2, || json!({"scope":"MS-T","mapping": esc(bytes)}));
                        }
                    }
                }
            });
        }
        Item::Corpus(ci, s, n) => {
            let (name, bytes) = &corpus[*ci];
            if universe_from_bytes(bytes).is_none() {
                acc.count("corpus files outside the representable domain", 1);
                return;
            }
            visit_corpus(name, bytes, acc, budget, *s, *n);

        }
    });
    let mut acc = acc;
    acc.transitions += acc.observations;
    let mut scopes: Vec<Value> = spaces.iter().map(|s| {
        let mut d = s.describe();
        if let Some(a) = d.get("alphabet").and_then(|a| a.as_array()).cloned() {
            if a.len() > 40 {
                d["alphabet"] = json!(format!("{} lines (see pgmc/src/e1.rs)", a.len()));
            }
        }
        d
    }).collect();
    scopes.push(json!({"scope":"MS-T token strings","kind":"all strings of <= depth tokens","tokens": MS_T_TOKENS.iter().map(|t| esc(t)).collect::<Vec<_>>(), "depth": tdepth}));
    scopes.push(json!({"scope":"MS-F corpus","files": corpus.iter().map(|(n, b)| json!({"file":n,"bytes":b.len()})).collect::<Vec<_>>(), "queries":"per class block: {obfuscated, original, near misses} x the block's method names x every constant of the block +-1, 0, 1, usize::MAX x by-params strings of the block"}));
    let meta = RunMeta {
        prop: "C02",
        tier,
        level: "model_checking",
        rule: "states = mappings (all line histories of the AST scopes, all token strings of MS-T inside the representable domain, class blocks of the corpus files); in every state the complete query universe (class, method, frame by line, frame by parameters, throwable, text trace, typed trace, signature) is issued against the mapper, the mapper with parameter index and the cache (written->parsed); for every distinct non-empty frame answer the iterators of mapper and cache are also consumed through nth / skip / step_by / last / count / size_hint and must show the sequence of repeated next(); oracle = equality of the real answers. distinct = distinct mapper answers; non-trivial = non-empty answers".into(),
        bounds: json!({"scopes": scopes}),
        assumptions: vec!["domain filter for MS-T / MS-F uses the implementation's own record iterator (subject of C05/C06)".into(), "names non-empty, line numbers < 2^32-1 (the property's stated domain)".into()],
        trusted_base: vec!["rustc/std".into(), "differential oracle: no model involved".into()],
    };
    finish(meta, acc, &budget, &|case| recheck(case))
}

pub fn recheck(case: &Value) -> Vec<String> {
    let mut acc = Acc::new();
    let mut abuf = Aligned::new(&[]);
    match case["kind"].as_str().unwrap_or("") {
        "ast" => {
            let (lines, term) = file_from_json(case);
            let bytes = print_file(&lines, term);
            let unis = crate::q::universes_for(&lines, case["wide"].as_bool().unwrap_or(false));
            visit_bytes(&bytes, &unis, &|| file_to_json(&lines, term), &mut abuf, &mut acc);
        }
        "bytes" => {
            let bytes = unesc(case["text"].as_str().unwrap_or(""));
            if let Some(uni) = universe_from_bytes(&bytes) {
                visit_bytes(&bytes, std::slice::from_ref(&uni), &|| bytes_case(&bytes), &mut abuf, &mut acc);
            }
        }
        "corpus" => {
            let name = case["file"].as_str().unwrap_or("");
            if let Ok(bytes) = std::fs::read(name) {
                let b = Budget::new(3600);
                visit_corpus(name, &bytes, &mut acc, &b, 0, 1);
            }
        }
        _ => {}
    }
    acc.violations.keys().cloned().collect()
}
