//! wp — a controlled scheduler over REAL OS threads whose scheduling points are (a) the harness' own points
//! (before every API call / iterator step) and (b) every store the subject executes into the SHARED objects
//! (and, in a second phase, every load of a location that was stored to).
//!
//! How (b) is intercepted without touching the subject: the shared objects (mapper, cache, mapping and everything
//! they own) are built while a bump "arena" allocator is switched on for the building thread; the arena pages
//! are then mprotect()ed read-only. A store into them raises SIGSEGV; the handler turns the fault into a
//! scheduling point (the thread parks until the explorer grants it the baton), then un-protects the region,
//! sets the x86 trap flag, lets exactly that one instruction execute, and re-protects the region in the SIGTRAP
//! handler. Exactly one thread runs between two points, so the window is not observable by the others.
//! The subject is unmodified: whatever interior mutability a change introduces inside the shared objects
//! (atomics, locks, cells, lazily initialised fields) becomes visible to the explorer at instruction granularity.
//! Not intercepted: the subject's `static`s (they live in the binary's data segment, see DESIGN.md §11.7).
#![allow(clippy::missing_safety_doc)]

use std::alloc::{GlobalAlloc, Layout, System};
use std::cell::Cell;
use std::sync::atomic::{AtomicBool, AtomicPtr, AtomicU64, AtomicUsize, Ordering::*};
use std::sync::{Condvar, Mutex};

const ARENA_SIZE: usize = 1 << 31; // reserved address space only (MAP_NORESERVE); touched pages are what counts
const PAGE: usize = 4096;

static ARENA_BASE: AtomicUsize = AtomicUsize::new(0);
static ARENA_NEXT: AtomicUsize = AtomicUsize::new(0);
static ARENA_INIT: Mutex<()> = Mutex::new(());
static ARENA_FAILED: AtomicBool = AtomicBool::new(false);

/// can the arena be set up here (address space reservation succeeded)?
pub fn arena_ok() -> bool {
    unsafe { arena_base() != 0 }
}

thread_local! {
    static ARENA_ON: Cell<bool> = const { Cell::new(false) };
    static THREAD_ID: Cell<usize> = const { Cell::new(usize::MAX) };
    static STEPPING: Cell<bool> = const { Cell::new(false) };
    static LAST_RIP: Cell<usize> = const { Cell::new(0) };
}

pub struct ArenaAlloc;

fn arena_on() -> bool {
    ARENA_ON.try_with(|c| c.get()).unwrap_or(false)
}

#[inline]
fn in_arena(p: *const u8) -> bool {
    let b = ARENA_BASE.load(Relaxed);
    b != 0 && (p as usize) >= b && (p as usize) < b + ARENA_SIZE
}

unsafe fn arena_base() -> usize {
    let b = ARENA_BASE.load(Acquire);
    if b != 0 {
        return b;
    }
    if ARENA_FAILED.load(Acquire) {
        return 0;
    }
    let _g = ARENA_INIT.lock();
    let b = ARENA_BASE.load(Acquire);
    if b != 0 {
        return b;
    }
    let p = libc::mmap(std::ptr::null_mut(), ARENA_SIZE, libc::PROT_READ | libc::PROT_WRITE, libc::MAP_PRIVATE | libc::MAP_ANONYMOUS | libc::MAP_NORESERVE, -1, 0);
    if p == libc::MAP_FAILED {
        // no arena on this machine: allocations fall back to the system allocator, `arena_ok()` says so
        ARENA_FAILED.store(true, Release);
        return 0;
    }
    ARENA_BASE.store(p as usize, Release);
    p as usize
}

unsafe fn arena_alloc(l: Layout) -> *mut u8 {
    let base = arena_base();
    if base == 0 {
        return System.alloc(l);
    }
    let align = l.align().max(16);
    let mut cur = ARENA_NEXT.load(Relaxed);
    loop {
        let start = (cur + align - 1) & !(align - 1);
        let end = start + l.size();
        if end > ARENA_SIZE {
            return System.alloc(l);
        }
        match ARENA_NEXT.compare_exchange_weak(cur, end, Relaxed, Relaxed) {
            Ok(_) => return (base + start) as *mut u8,
            Err(c) => cur = c,
        }
    }
}

unsafe impl GlobalAlloc for ArenaAlloc {
    unsafe fn alloc(&self, l: Layout) -> *mut u8 {
        if arena_on() {
            return arena_alloc(l);
        }
        System.alloc(l)
    }
    unsafe fn alloc_zeroed(&self, l: Layout) -> *mut u8 {
        if arena_on() {
            let p = arena_alloc(l);
            if !p.is_null() {
                std::ptr::write_bytes(p, 0, l.size());
            }
            return p;
        }
        System.alloc_zeroed(l)
    }
    unsafe fn dealloc(&self, p: *mut u8, l: Layout) {
        if in_arena(p) {
            return; // arena memory is never reused
        }
        System.dealloc(p, l)
    }
    unsafe fn realloc(&self, p: *mut u8, l: Layout, new_size: usize) -> *mut u8 {
        let from_arena = in_arena(p);
        if from_arena || arena_on() {
            let nl = Layout::from_size_align_unchecked(new_size, l.align());
            let n = self.alloc(nl);
            if !n.is_null() {
                std::ptr::copy_nonoverlapping(p, n, l.size().min(new_size));
                if !from_arena {
                    System.dealloc(p, l);
                }
            }
            return n;
        }
        System.realloc(p, l, new_size)
    }
}

/// a page-aligned span of the arena holding everything allocated by `f`
#[derive(Clone, Copy, Debug)]
pub struct Region {
    pub start: usize,
    pub end: usize,
}

fn page_up(x: usize) -> usize {
    (x + PAGE - 1) & !(PAGE - 1)
}

/// run `f` with the arena switched on for this thread; everything it allocates lies inside the returned region
pub fn build_in_arena<T>(f: impl FnOnce() -> T) -> (T, Region) {
    unsafe {
        let base = arena_base();
        // start on a fresh page
        let mut cur = ARENA_NEXT.load(Relaxed);
        loop {
            match ARENA_NEXT.compare_exchange(cur, page_up(cur), Relaxed, Relaxed) {
                Ok(_) => break,
                Err(c) => cur = c,
            }
        }
        let s = page_up(cur);
        ARENA_ON.with(|c| c.set(true));
        let v = f();
        ARENA_ON.with(|c| c.set(false));
        let mut cur = ARENA_NEXT.load(Relaxed);
        loop {
            match ARENA_NEXT.compare_exchange(cur, page_up(cur) + PAGE, Relaxed, Relaxed) {
                Ok(_) => break,
                Err(c) => cur = c,
            }
        }
        (v, Region { start: base + s, end: base + page_up(cur) })
    }
}

// ---------------------------------------------------------------------------------------------
// protection + signal handling

static P_START: AtomicUsize = AtomicUsize::new(0);
static P_END: AtomicUsize = AtomicUsize::new(0);
/// pages (absolute addresses) that are PROT_NONE while protected (phase 2), the rest of the region is PROT_READ
static WATCH_PAGES: Mutex<Vec<usize>> = Mutex::new(Vec::new());
/// watched locations (absolute address ranges): an access to one of them is a scheduling point in phase 2
static WATCH_LOCS: Mutex<Vec<(usize, usize)>> = Mutex::new(Vec::new());
static CUR: AtomicPtr<Sched> = AtomicPtr::new(std::ptr::null_mut());
static HANDLERS: AtomicBool = AtomicBool::new(false);
pub static STALE_FAULTS: AtomicU64 = AtomicU64::new(0);
pub static UNSCHEDULED_FAULTS: AtomicU64 = AtomicU64::new(0);

unsafe fn apply_protection(on: bool) {
    let (s, e) = (P_START.load(Relaxed), P_END.load(Relaxed));
    if s == 0 || e <= s {
        return;
    }
    if !on {
        libc::mprotect(s as *mut _, e - s, libc::PROT_READ | libc::PROT_WRITE);
        return;
    }
    libc::mprotect(s as *mut _, e - s, libc::PROT_READ);
    if let Ok(w) = WATCH_PAGES.try_lock() {
        for &p in w.iter() {
            libc::mprotect(p as *mut _, PAGE, libc::PROT_NONE);
        }
    }
}

pub fn protect(r: Region, watch_offsets: &[(usize, usize)]) {
    install_handlers();
    {
        let mut wp = WATCH_PAGES.lock().unwrap();
        let mut wl = WATCH_LOCS.lock().unwrap();
        wp.clear();
        wl.clear();
        for &(off, len) in watch_offsets {
            let a = r.start + off;
            wl.push((a, a + len.max(1)));
            let mut p = a & !(PAGE - 1);
            while p < a + len.max(1) {
                if !wp.contains(&p) {
                    wp.push(p);
                }
                p += PAGE;
            }
        }
    }
    P_START.store(r.start, SeqCst);
    P_END.store(r.end, SeqCst);
    unsafe { apply_protection(true) };
}

pub fn unprotect() {
    unsafe { apply_protection(false) };
    P_START.store(0, SeqCst);
    P_END.store(0, SeqCst);
}

/// does the instruction at `rip` carry a REP / REPNE prefix (string instruction: one fault per iteration)?
unsafe fn is_rep(rip: usize) -> bool {
    for i in 0..4 {
        let b = *((rip + i) as *const u8);
        match b {
            0xF2 | 0xF3 => return true,
            0x66 | 0x67 | 0x2E | 0x36 | 0x3E | 0x26 | 0x64 | 0x65 => continue,
            _ => return false,
        }
    }
    false
}

const REG_RIP: usize = 16;
const REG_EFL: usize = 17;
const REG_ERR: usize = 19;
const TF: i64 = 0x100;

unsafe extern "C" fn on_segv(_sig: i32, info: *mut libc::siginfo_t, ctx: *mut libc::c_void) {
    let addr = (*info).si_addr() as usize;
    let uc = ctx as *mut libc::ucontext_t;
    let (s, e) = (P_START.load(Relaxed), P_END.load(Relaxed));
    if !(addr >= s && addr < e) {
        if in_arena(addr as *const u8) {
            // a region of an earlier execution (something kept a pointer into it): make the page writable for good
            STALE_FAULTS.fetch_add(1, Relaxed);
            libc::mprotect((addr & !(PAGE - 1)) as *mut _, PAGE, libc::PROT_READ | libc::PROT_WRITE);
            return;
        }
        // not ours: restore the default action and re-execute the faulting instruction
        let mut sa: libc::sigaction = std::mem::zeroed();
        sa.sa_sigaction = libc::SIG_DFL;
        libc::sigaction(libc::SIGSEGV, &sa, std::ptr::null_mut());
        return;
    }
    let g = &mut (*uc).uc_mcontext.gregs;
    let rip = g[REG_RIP] as usize;
    let is_write = g[REG_ERR] & 2 != 0;
    let tid = THREAD_ID.try_with(|c| c.get()).unwrap_or(usize::MAX);
    let sched = CUR.load(Acquire);
    if tid == usize::MAX || sched.is_null() {
        UNSCHEDULED_FAULTS.fetch_add(1, Relaxed);
        apply_protection(false);
        P_START.store(0, SeqCst);
        P_END.store(0, SeqCst);
        return;
    }
    let sched = &*sched;
    // is this access a scheduling point?  every store is; a load only when it touches a watched location
    let mut point = is_write;
    if !point {
        if let Ok(wl) = WATCH_LOCS.try_lock() {
            point = wl.iter().any(|&(a, b)| addr + 8 > a && addr < b);
        }
    }
    // a string instruction (rep movs / stos) traps once per iteration: one point per instruction, not per iteration
    let same = LAST_RIP.try_with(|c| c.get()).unwrap_or(0) == rip && is_rep(rip);
    let _ = LAST_RIP.try_with(|c| c.set(rip));
    if point && !same {
        sched.point(tid, Kind::Mem { write: is_write, off: addr - s, rip });
    }
    if sched.free_running() {
        apply_protection(false);
        return;
    }
    apply_protection(false);
    g[REG_EFL] |= TF;
    let _ = STEPPING.try_with(|c| c.set(true));
}

unsafe extern "C" fn on_trap(_sig: i32, _info: *mut libc::siginfo_t, ctx: *mut libc::c_void) {
    let uc = ctx as *mut libc::ucontext_t;
    let stepping = STEPPING.try_with(|c| c.get()).unwrap_or(false);
    if !stepping {
        let mut sa: libc::sigaction = std::mem::zeroed();
        sa.sa_sigaction = libc::SIG_DFL;
        libc::sigaction(libc::SIGTRAP, &sa, std::ptr::null_mut());
        return;
    }
    let _ = STEPPING.try_with(|c| c.set(false));
    (*uc).uc_mcontext.gregs[REG_EFL] &= !TF;
    let sched = CUR.load(Acquire);
    if !sched.is_null() && (*sched).free_running() {
        return;
    }
    apply_protection(true);
}

pub fn install_handlers() {
    if HANDLERS.swap(true, SeqCst) {
        return;
    }
    unsafe {
        let mut sa: libc::sigaction = std::mem::zeroed();
        sa.sa_sigaction = on_segv as usize;
        sa.sa_flags = libc::SA_SIGINFO | libc::SA_NODEFER;
        libc::sigemptyset(&mut sa.sa_mask);
        libc::sigaction(libc::SIGSEGV, &sa, std::ptr::null_mut());
        let mut st: libc::sigaction = std::mem::zeroed();
        st.sa_sigaction = on_trap as usize;
        st.sa_flags = libc::SA_SIGINFO | libc::SA_NODEFER;
        libc::sigemptyset(&mut st.sa_mask);
        libc::sigaction(libc::SIGTRAP, &st, std::ptr::null_mut());
    }
}

pub fn set_thread_id(t: usize) {
    THREAD_ID.with(|c| c.set(t));
    let s = CUR.load(Acquire);
    if !s.is_null() {
        unsafe { (*s).register(t) };
    }
    LAST_RIP.with(|c| c.set(0));
}

/// forget the last faulting instruction (called at every harness point: the next fault is a new point even when it
/// comes from the same instruction, e.g. the same store executed by the next API call)
pub fn new_step() {
    let _ = LAST_RIP.try_with(|c| c.set(0));
}

// ---------------------------------------------------------------------------------------------
// scheduler

#[derive(Clone, Copy, Debug, PartialEq, Eq)]
pub enum Kind {
    Call,
    Mem { write: bool, off: usize, rip: usize },
}

#[derive(Clone, Debug)]
pub struct PointRec {
    pub enabled: Vec<usize>,
    pub running_enabled: bool,
}

#[derive(Default)]
struct St {
    k: usize,
    parked: Vec<Option<Kind>>,
    done: Vec<bool>,
    /// thread is asleep in the kernel while holding the baton (e.g. waiting for a lock another parked thread holds):
    /// not enabled until it reaches its next point
    blocked: Vec<bool>,
    /// thread keeps hitting memory points without getting anywhere (spinning on a location): not enabled until
    /// another thread has been granted a point
    spinning: Vec<bool>,
    streak: Vec<u32>,
    os_tid: Vec<i32>,
    current: Option<usize>,
    last_running: Option<usize>,
    pending: bool,
    prefix: Vec<usize>,
    choices: Vec<usize>,
    points: Vec<PointRec>,
    free_run: bool,
    diverged: bool,
    stuck: bool,
    spin_resets: u32,
    /// a bypass of a sleeping holder or a spin descheduling happened: the enabled sets then depend on timing
    timing: bool,
    last_kind: Vec<Option<Kind>>,
    grants: Vec<(usize, Kind)>,
}

pub struct Sched {
    m: Mutex<St>,
    cv: Condvar,
    free: AtomicBool,
}

pub struct Exec {
    pub choices: Vec<usize>,
    pub points: Vec<PointRec>,
    pub grants: Vec<(usize, Kind)>,
    pub diverged: bool,
    pub abandoned: bool,
    /// no thread could be scheduled although not all were done (every remaining thread asleep or spinning)
    pub stuck: bool,
    /// a sleeping baton holder was bypassed or a spinner descheduled: enabled sets may depend on timing
    pub timing: bool,
}

const SPIN_LIMIT: u32 = 400;

fn thread_asleep(os_tid: i32) -> bool {
    // field 3 of /proc/self/task/<tid>/stat: R running, S sleeping (interruptible), D disk sleep ...
    match std::fs::read_to_string(format!("/proc/self/task/{}/stat", os_tid)) {
        Ok(t) => match t.rfind(')') {
            Some(i) => t[i + 1..].trim_start().starts_with('S'),
            None => false,
        },
        Err(_) => false,
    }
}

impl Sched {
    pub fn new(k: usize, prefix: Vec<usize>) -> Sched {
        Sched {
            m: Mutex::new(St { k, parked: vec![None; k], done: vec![false; k], blocked: vec![false; k], spinning: vec![false; k], streak: vec![0; k], last_kind: vec![None; k], os_tid: vec![0; k], prefix, ..Default::default() }),
            cv: Condvar::new(),
            free: AtomicBool::new(false),
        }
    }
    pub fn free_running(&self) -> bool {
        self.free.load(Relaxed)
    }
    pub fn register(&self, tid: usize) {
        let mut st = self.m.lock().unwrap_or_else(|e| e.into_inner());
        st.os_tid[tid] = unsafe { libc::gettid() };
    }
    fn release_all(&self, st: &mut St) {
        st.free_run = true;
        self.free.store(true, SeqCst);
        self.cv.notify_all();
    }
    fn decide(&self, st: &mut St, from_driver: bool) {
        if st.current.is_some() || st.free_run {
            return;
        }
        if !(0..st.k).all(|i| st.done[i] || st.parked[i].is_some() || st.blocked[i]) {
            return;
        }
        if st.blocked.iter().any(|b| *b) && !from_driver {
            // a sleeping thread may just have been woken: the driver decides once every such thread is either parked
            // or stably asleep (keeps the enabled set a function of the schedule, not of timing)
            st.pending = true;
            self.cv.notify_all();
            return;
        }
        st.pending = false;
        let is_enabled = |st: &St, i: usize| !st.done[i] && st.parked[i].is_some() && !st.spinning[i];
        let mut enabled: Vec<usize> = Vec::new();
        let mut running_enabled = false;
        if let Some(r) = st.last_running {
            if is_enabled(st, r) {
                enabled.push(r);
                running_enabled = true;
            }
        }
        for i in 0..st.k {
            if is_enabled(st, i) && !enabled.contains(&i) {
                enabled.push(i);
            }
        }
        if enabled.is_empty() && st.spinning.iter().any(|s| *s) && !(0..st.k).any(|i| st.blocked[i]) && st.spin_resets < 64 {
            // only spinners left and nobody asleep: they are the only ones who can make progress - let them look again
            st.spin_resets += 1;
            for i in 0..st.k {
                if st.spinning[i] {
                    st.spinning[i] = false;
                    st.streak[i] = 0;
                }
            }
            if let Some(r) = st.last_running {
                if is_enabled(st, r) {
                    enabled.push(r);
                    running_enabled = true;
                }
            }
            for i in 0..st.k {
                if is_enabled(st, i) && !enabled.contains(&i) {
                    enabled.push(i);
                }
            }
        }
        if enabled.is_empty() {
            if !st.done.iter().all(|d| *d) {
                st.stuck = true;
                self.release_all(st);
            }
            self.cv.notify_all();
            return;
        }
        // the same load instruction on the same location again (a spin loop): not a new choice point
        let repeat = running_enabled && matches!(st.parked[enabled[0]], Some(Kind::Mem { write: false, .. })) && st.parked[enabled[0]] == st.last_kind[enabled[0]];
        let chosen = if enabled.len() == 1 || repeat {
            enabled[0]
        } else {
            let c = st.prefix.get(st.choices.len()).copied().unwrap_or(0);
            if c >= enabled.len() {
                // the recorded schedule does not fit this execution: hard error, reported by the driver
                st.diverged = true;
                self.release_all(st);
                return;
            }
            st.choices.push(c);
            st.points.push(PointRec { enabled: enabled.clone(), running_enabled });
            enabled[c]
        };
        let kind = st.parked[chosen].unwrap_or(Kind::Call);
        st.grants.push((chosen, kind));
        st.last_kind[chosen] = Some(kind);
        // somebody else makes progress: spinners may look again
        for i in 0..st.k {
            if i != chosen && st.spinning[i] {
                st.spinning[i] = false;
                st.streak[i] = 0;
            }
        }
        st.current = Some(chosen);
        self.cv.notify_all();
    }
    /// a scheduling point of thread `tid`: park until granted
    pub fn point(&self, tid: usize, kind: Kind) {
        let mut st = self.m.lock().unwrap_or_else(|e| e.into_inner());
        if st.free_run {
            return;
        }
        st.parked[tid] = Some(kind);
        st.blocked[tid] = false;
        match kind {
            Kind::Call => st.streak[tid] = 0,
            Kind::Mem { .. } => {
                st.streak[tid] += 1;
                if st.streak[tid] > SPIN_LIMIT {
                    st.spinning[tid] = true;
                    st.timing = true;
                }
            }
        }
        if st.current == Some(tid) {
            st.current = None;
            st.last_running = Some(tid);
        }
        self.decide(&mut st, false);
        while !st.free_run && st.current != Some(tid) {
            st = self.cv.wait(st).unwrap_or_else(|e| e.into_inner());
        }
        st.parked[tid] = None;
    }
    pub fn finish(&self, tid: usize) {
        let mut st = self.m.lock().unwrap_or_else(|e| e.into_inner());
        st.done[tid] = true;
        st.parked[tid] = None;
        st.blocked[tid] = false;
        if st.current == Some(tid) {
            st.current = None;
            st.last_running = None;
        }
        self.decide(&mut st, false);
        self.cv.notify_all();
    }
    /// driver: wait until every thread is done; watches for a baton holder that went to sleep in the kernel (it is
    /// then bypassed: treated as not enabled until its next point); after `timeout` the execution is abandoned
    pub fn wait_all(&self, timeout: std::time::Duration) -> bool {
        let deadline = std::time::Instant::now() + timeout;
        let mut st = self.m.lock().unwrap_or_else(|e| e.into_inner());
        let mut last_grants = usize::MAX;
        let mut sleepy = 0u32;
        let mut stable = 0u32;
        loop {
            if st.done.iter().all(|d| *d) {
                return !st.free_run || st.diverged;
            }
            if st.free_run {
                // released: just wait for the threads to end
                let (g, _) = self.cv.wait_timeout(st, std::time::Duration::from_millis(2)).unwrap_or_else(|e| e.into_inner());
                st = g;
                if std::time::Instant::now() >= deadline + std::time::Duration::from_secs(20) {
                    return false;
                }
                continue;
            }
            let now = std::time::Instant::now();
            if now >= deadline {
                self.release_all(&mut st);
                continue;
            }
            if let Some(h) = st.current {
                if st.grants.len() == last_grants && st.parked[h].is_none() && !st.done[h] && thread_asleep(st.os_tid[h]) {
                    sleepy += 1;
                } else {
                    sleepy = 0;
                }
                last_grants = st.grants.len();
                if sleepy >= 3 {
                    sleepy = 0;
                    st.timing = true;
                    st.blocked[h] = true;
                    st.current = None;
                    st.last_running = None;
                    self.decide(&mut st, true);
                }
            } else if st.pending {
                let ready = (0..st.k).all(|i| !st.blocked[i] || thread_asleep(st.os_tid[i]));
                if ready {
                    stable += 1;
                } else {
                    stable = 0;
                }
                if stable >= 3 {
                    stable = 0;
                    self.decide(&mut st, true);
                }
            }
            let (g, _) = self.cv.wait_timeout(st, std::time::Duration::from_millis(1)).unwrap_or_else(|e| e.into_inner());
            st = g;
        }
    }
    pub fn into_exec(&self, abandoned: bool) -> Exec {
        let st = self.m.lock().unwrap_or_else(|e| e.into_inner());
        Exec { choices: st.choices.clone(), points: st.points.clone(), grants: st.grants.clone(), diverged: st.diverged, abandoned: abandoned || (st.free_run && !st.diverged), stuck: st.stuck, timing: st.timing }
    }
}

pub fn set_current(s: *mut Sched) {
    CUR.store(s, SeqCst);
}

/// Deviation-bounded stateless DFS: `run(prefix)` executes one schedule (replays `prefix`, then always continues
/// the running thread); alternatives are explored at every later point as long as the number of preemptions
/// (switching away from a thread that could have continued) stays within `bound`.
pub struct ExploreStats {
    pub executions: u64,
    pub choice_points: u64,
    pub mem_points: u64,
    pub abandoned: u64,
    pub stuck: u64,
    pub timing_divergences: u64,
    pub capped: bool,
    pub max_preemptions: usize,
}

pub fn explore(bound: usize, cap: u64, wall: std::time::Duration, run: &mut dyn FnMut(&[usize]) -> Result<Exec, String>) -> Result<ExploreStats, String> {
    let mut stats = ExploreStats { executions: 0, choice_points: 0, mem_points: 0, abandoned: 0, stuck: 0, timing_divergences: 0, capped: false, max_preemptions: 0 };
    let mut stack: Vec<Vec<usize>> = vec![Vec::new()];
    let mut timing_seen = false;
    let t0 = std::time::Instant::now();
    while let Some(prefix) = stack.pop() {
        if stats.executions >= cap || t0.elapsed() > wall {
            stats.capped = true;
            break;
        }
        let x = run(&prefix)?;
        stats.executions += 1;
        timing_seen |= x.timing;
        let misfit = x.diverged || (!x.abandoned && (x.choices.len() < prefix.len() || x.choices[..prefix.len()] != prefix[..]));
        if misfit && timing_seen {
            // blocking inside the subject (locks): which threads are enabled then depends on when a sleeper wakes up;
            // such a schedule is not replayable and is counted, not believed
            stats.abandoned += 1;
            stats.timing_divergences += 1;
            if stats.abandoned >= 8 {
                stats.capped = true;
                break;
            }
            continue;
        }
        if x.diverged {
            return Err(format!("replay divergence: the recorded prefix {:?} does not fit the execution (choices made {:?})", prefix, x.choices));
        }
        if x.abandoned {
            stats.abandoned += 1;
            if x.stuck {
                stats.stuck += 1;
            }
            if stats.abandoned >= 8 {
                // lock-style blocking the scheduler cannot resolve: stop this phase, say so
                stats.capped = true;
                break;
            }
            continue;
        }
        if x.choices.len() < prefix.len() || x.choices[..prefix.len()] != prefix[..] {
            return Err(format!("replay divergence: prefix {:?} vs choices {:?}", prefix, x.choices));
        }
        stats.choice_points += x.points.len() as u64;
        stats.mem_points += x.grants.iter().filter(|(_, k)| matches!(k, Kind::Mem { .. })).count() as u64;
        let mut cost_before = 0usize;
        for j in 0..prefix.len() {
            if x.choices[j] != 0 && x.points[j].running_enabled {
                cost_before += 1;
            }
        }
        stats.max_preemptions = stats.max_preemptions.max(cost_before);
        let mut cost = cost_before;
        let mut alts: Vec<Vec<usize>> = Vec::new();
        for i in prefix.len()..x.points.len() {
            let p = &x.points[i];
            for alt in 1..p.enabled.len() {
                let c = cost + usize::from(p.running_enabled);
                if c > bound {
                    continue;
                }
                let mut np = x.choices[..i].to_vec();
                np.push(alt);
                alts.push(np);
            }
            if x.choices[i] != 0 && p.running_enabled {
                cost += 1;
            }
        }
        // The order in which the alternatives of one execution are taken up does not change what is explored (every
        // node is expanded once), only what is reached first when a cap ends the phase: alternate between "latest point
        // first" and "earliest point first", so that a race at the very beginning of a long call (a lazily built index)
        // and one at its end are both reached early.
        if stats.executions % 2 == 0 {
            alts.reverse();
        }
        stack.extend(alts);
    }
    Ok(stats)
}
