//! Independent SHA-1 (FIPS 180-4) and RFC 4122 version-5 UUID, for C18. No dependency on `uuid` / `sha1_smol`.

pub fn sha1(data: &[u8]) -> [u8; 20] {
    let mut h: [u32; 5] = [0x67452301, 0xEFCDAB89, 0x98BADCFE, 0x10325476, 0xC3D2E1F0];
    let ml = (data.len() as u64).wrapping_mul(8);
    let mut msg = data.to_vec();
    msg.push(0x80);
    while msg.len() % 64 != 56 {
        msg.push(0);
    }
    msg.extend_from_slice(&ml.to_be_bytes());
    for chunk in msg.chunks(64) {
        let mut w = [0u32; 80];
        for i in 0..16 {
            w[i] = u32::from_be_bytes([chunk[4 * i], chunk[4 * i + 1], chunk[4 * i + 2], chunk[4 * i + 3]]);
        }
        for i in 16..80 {
            w[i] = (w[i - 3] ^ w[i - 8] ^ w[i - 14] ^ w[i - 16]).rotate_left(1);
        }
        let (mut a, mut b, mut c, mut d, mut e) = (h[0], h[1], h[2], h[3], h[4]);
        for (i, wi) in w.iter().enumerate() {
            let (f, k) = match i {
                0..=19 => ((b & c) | (!b & d), 0x5A827999u32),
                20..=39 => (b ^ c ^ d, 0x6ED9EBA1),
                40..=59 => ((b & c) | (b & d) | (c & d), 0x8F1BBCDC),
                _ => (b ^ c ^ d, 0xCA62C1D6),
            };
            let t = a.rotate_left(5).wrapping_add(f).wrapping_add(e).wrapping_add(k).wrapping_add(*wi);
            e = d;
            d = c;
            c = b.rotate_left(30);
            b = a;
            a = t;
        }
        h[0] = h[0].wrapping_add(a);
        h[1] = h[1].wrapping_add(b);
        h[2] = h[2].wrapping_add(c);
        h[3] = h[3].wrapping_add(d);
        h[4] = h[4].wrapping_add(e);
    }
    let mut out = [0u8; 20];
    for i in 0..5 {
        out[4 * i..4 * i + 4].copy_from_slice(&h[i].to_be_bytes());
    }
    out
}

/// 6ba7b810-9dad-11d1-80b4-00c04fd430c8
pub const NAMESPACE_DNS: [u8; 16] = [0x6b, 0xa7, 0xb8, 0x10, 0x9d, 0xad, 0x11, 0xd1, 0x80, 0xb4, 0x00, 0xc0, 0x4f, 0xd4, 0x30, 0xc8];

pub fn uuid_v5(namespace: &[u8; 16], name: &[u8]) -> [u8; 16] {
    let mut buf = namespace.to_vec();
    buf.extend_from_slice(name);
    let d = sha1(&buf);
    let mut u = [0u8; 16];
    u.copy_from_slice(&d[..16]);
    u[6] = (u[6] & 0x0f) | 0x50;
    u[8] = (u[8] & 0x3f) | 0x80;
    u
}

/// R15: v5(v5(DNS, "guardsquare.com"), bytes)
pub fn proguard_uuid(bytes: &[u8]) -> [u8; 16] {
    let ns = uuid_v5(&NAMESPACE_DNS, b"guardsquare.com");
    uuid_v5(&ns, bytes)
}

pub fn hex20(d: &[u8]) -> String {
    d.iter().map(|b| format!("{:02x}", b)).collect()
}

/// FIPS 180 / RFC 3174 test vectors + the RFC 4122 style v5 example; panics (machinery error) when wrong
pub fn self_test() {
    assert_eq!(hex20(&sha1(b"abc")), "a9993e364706816aba3e25717850c26c9cd0d89d");
    assert_eq!(hex20(&sha1(b"")), "da39a3ee5e6b4b0d3255bfef95601890afd80709");
    assert_eq!(hex20(&sha1(b"abcdbcdecdefdefgefghfghighijhijkijkljklmklmnlmnomnopnopq")), "84983e441c3bd26ebaae4aa1f95129e5e54670f1");
    assert_eq!(hex20(&sha1(&vec![b'a'; 1_000_000])), "34aa973cd4c4daa4f61eeb2bdbad27316534016f");
    // uuid.uuid5(uuid.NAMESPACE_DNS, "python.org") from the Python documentation
    assert_eq!(hex20(&uuid_v5(&NAMESPACE_DNS, b"python.org")), "886313e13b8a53729b90" .to_string() + "0c9aee199e5d");
}
