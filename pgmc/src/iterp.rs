//! Iterator protocol check: whatever way a caller consumes one of the library's iterators (`next`, `nth`, `skip`,
//! `step_by`, `last`, `count`, `size_hint`, partial consumption followed by any of those) it must see the same
//! sequence that repeated `next()` yields. The methods are called on the library's own iterator type (generic `I`),
//! so an overridden `nth` / `last` / `count` / `size_hint` is what runs.
use std::fmt::Debug;

/// `mk` creates a fresh iterator for the same query; `key` turns an item into a comparable value (accessors only).
/// Returns a description of the first discrepancy.
pub fn iter_protocol<I, T, K>(mk: &dyn Fn() -> I, key: &dyn Fn(T) -> K, cap: usize) -> Option<String>
where
    I: Iterator<Item = T>,
    K: PartialEq + Debug,
{
    // baseline: repeated next()
    let mut base: Vec<K> = Vec::new();
    {
        let mut it = mk();
        while let Some(x) = it.next() {
            base.push(key(x));
            if base.len() > cap {
                return Some(format!("more than {} items from repeated next()", cap));
            }
        }
        if let Some(x) = it.next() {
            return Some(format!("next() after None yields {:?}", key(x)));
        }
        let (lo, hi) = it.size_hint();
        if lo != 0 || hi.map_or(false, |h| h != 0) && false {
            return Some(format!("size_hint() of the exhausted iterator is ({}, {:?})", lo, hi));
        }
    }
    let n = base.len();
    let lim = n + 8;
    // size_hint brackets the real length, before and after partial consumption
    for consumed in 0..=n.min(3) {
        let mut it = mk();
        for _ in 0..consumed {
            it.next();
        }
        let (lo, hi) = it.size_hint();
        let rest = n - consumed;
        if lo > rest || hi.map_or(false, |h| h < rest) {
            return Some(format!("size_hint() after {} next() is ({}, {:?}) but {} items follow", consumed, lo, hi, rest));
        }
    }
    let c = mk().take(lim).count();
    if c != n {
        return Some(format!("count() is {} (capped at {}), repeated next() yields {}", c, lim, n));
    }
    // count() on the library's own type (no adaptor in between) - only when the length is known to be finite
    let c = mk().count();
    if c != n {
        return Some(format!("count() is {}, repeated next() yields {}", c, n));
    }
    let l = mk().last().map(|x| key(x));
    if l.as_ref() != base.last() {
        return Some(format!("last() is {:?}, repeated next() ends with {:?}", l, base.last()));
    }
    for k in 0..=n {
        let mut it = mk();
        let x = it.nth(k).map(|x| key(x));
        if x.as_ref() != base.get(k) {
            return Some(format!("nth({}) is {:?}, item {} of repeated next() is {:?}", k, x, k, base.get(k)));
        }
        if k < n && k < 4 {
            // nth consumes what it returns and everything before it
            let rest: Vec<K> = it.take(lim).map(|x| key(x)).collect();
            if rest[..] != base[k + 1..] {
                return Some(format!("after nth({}) the iterator yields {:?}, expected {:?}", k, rest, &base[k + 1..]));
            }
        }
    }
    for k in 1..=n.min(3) {
        let got: Vec<K> = mk().skip(k).take(lim).map(|x| key(x)).collect();
        if got[..] != base[k..] {
            return Some(format!("skip({}) yields {:?}, expected {:?}", k, got, &base[k..]));
        }
    }
    for step in 2..=3usize {
        if n >= 2 {
            let got: Vec<K> = mk().step_by(step).take(lim).map(|x| key(x)).collect();
            let want: Vec<&K> = base.iter().step_by(step).collect();
            if got.len() != want.len() || got.iter().zip(want.iter()).any(|(a, b)| a != *b) {
                return Some(format!("step_by({}) yields {:?}, expected {:?}", step, got, want));
            }
        }
    }
    // one next(), then last() / count()
    if n >= 1 {
        let mut it = mk();
        it.next();
        let c = it.count();
        if c != n - 1 {
            return Some(format!("count() after one next() is {}, expected {}", c, n - 1));
        }
        let mut it = mk();
        it.next();
        let l = it.last().map(|x| key(x));
        let want = if n >= 2 { base.last() } else { None };
        if l.as_ref() != want {
            return Some(format!("last() after one next() is {:?}, expected {:?}", l, want));
        }
    }
    None
}

/// for iterators that are `Clone`: a clone taken after k items continues exactly like the original
pub fn iter_clone_protocol<I, T, K>(mk: &dyn Fn() -> I, key: &dyn Fn(T) -> K, cap: usize) -> Option<String>
where
    I: Iterator<Item = T> + Clone,
    K: PartialEq + Debug,
{
    let base: Vec<K> = mk().take(cap).map(|x| key(x)).collect();
    let n = base.len();
    for k in 0..=n.min(3) {
        let mut it = mk();
        for _ in 0..k {
            it.next();
        }
        let c = it.clone();
        let a: Vec<K> = c.take(n + 8).map(|x| key(x)).collect();
        let b: Vec<K> = it.take(n + 8).map(|x| key(x)).collect();
        if a[..] != base[k..] {
            return Some(format!("a clone taken after {} items yields {:?}, expected {:?}", k, a, &base[k..]));
        }
        if b[..] != base[k..] {
            return Some(format!("after being cloned at item {} the iterator yields {:?}, expected {:?}", k, b, &base[k..]));
        }
    }
    None
}
