//! Generating AST of a mapping file, its printer and its JSON form.
//!
//! The reference model (model.rs) interprets this AST directly; the implementation only ever sees
//! the printed bytes. The oracle therefore contains no parser.

use crate::fw::{esc, unesc};
use serde_json::{json, Value};

pub type S = &'static str;

pub fn leak(s: &str) -> S {
    Box::leak(s.to_string().into_boxed_str())
}
pub fn leak_bytes(b: &[u8]) -> &'static [u8] {
    Box::leak(b.to_vec().into_boxed_slice())
}

#[derive(Clone, Copy, PartialEq, Eq, Hash, Debug)]
pub enum Orig {
    None,
    S(u64),
    SE(u64, u64),
}

#[derive(Clone, Copy, PartialEq, Eq, Hash, Debug)]
pub enum Line {
    /// `orig -> obf:`
    Class { orig: S, obf: S },
    /// `# {"id":"sourceFile","fileName":"<name>"}`
    SourceFile(S),
    /// `# key: value` / `# key`
    Header { key: S, value: Option<S> },
    /// `    ty orig -> obf`
    Field { ty: S, orig: S, obf: S },
    /// `    [s:e:]ty [cls.]name(args)[:os[:oe]] -> obf`
    Method { range: Option<(u64, u64)>, ty: S, cls: Option<S>, name: S, args: S, orig: Orig, obf: S },
    /// a line that is *not* a record of the documented grammar (blank, garbage, wrong indentation …)
    Noise(&'static [u8]),
}

#[derive(Clone, Copy, PartialEq, Eq, Hash, Debug)]
pub enum Term {
    Lf,
    CrLf,
    Cr,
    /// LF between lines, nothing after the last one
    LfNoFinal,
    /// a blank line after every line
    LfLf,
}
pub const TERMS: [Term; 5] = [Term::Lf, Term::CrLf, Term::Cr, Term::LfNoFinal, Term::LfLf];

impl Term {
    pub fn name(self) -> &'static str {
        match self {
            Term::Lf => "LF",
            Term::CrLf => "CRLF",
            Term::Cr => "CR",
            Term::LfNoFinal => "LF-nofinal",
            Term::LfLf => "LFLF",
        }
    }
    pub fn from_name(s: &str) -> Term {
        TERMS.iter().copied().find(|t| t.name() == s).unwrap_or(Term::Lf)
    }
}

impl Line {
    pub fn print_into(&self, out: &mut Vec<u8>) {
        use std::io::Write;
        match *self {
            Line::Class { orig, obf } => {
                let _ = write!(out, "{} -> {}:", orig, obf);
            }
            Line::SourceFile(name) => {
                let _ = write!(out, "# {{\"id\":\"sourceFile\",\"fileName\":\"{}\"}}", name);
            }
            Line::Header { key, value } => match value {
                Some(v) => {
                    let _ = write!(out, "# {}: {}", key, v);
                }
                None => {
                    let _ = write!(out, "# {}", key);
                }
            },
            Line::Field { ty, orig, obf } => {
                let _ = write!(out, "    {} {} -> {}", ty, orig, obf);
            }
            Line::Method { range, ty, cls, name, args, orig, obf } => {
                out.extend_from_slice(b"    ");
                if let Some((s, e)) = range {
                    let _ = write!(out, "{}:{}:", s, e);
                }
                let _ = write!(out, "{} ", ty);
                if let Some(c) = cls {
                    let _ = write!(out, "{}.", c);
                }
                let _ = write!(out, "{}({})", name, args);
                match orig {
                    Orig::None => {}
                    Orig::S(a) => {
                        let _ = write!(out, ":{}", a);
                    }
                    Orig::SE(a, b) => {
                        let _ = write!(out, ":{}:{}", a, b);
                    }
                }
                let _ = write!(out, " -> {}", obf);
            }
            Line::Noise(b) => out.extend_from_slice(b),
        }
    }

    pub fn printed(&self) -> Vec<u8> {
        let mut v = Vec::new();
        self.print_into(&mut v);
        v
    }

    pub fn to_json(&self) -> Value {
        match *self {
            Line::Class { orig, obf } => json!({"t":"class","orig":orig,"obf":obf}),
            Line::SourceFile(n) => json!({"t":"sourcefile","name":n}),
            Line::Header { key, value } => json!({"t":"header","key":key,"value":value}),
            Line::Field { ty, orig, obf } => json!({"t":"field","ty":ty,"orig":orig,"obf":obf}),
            Line::Method { range, ty, cls, name, args, orig, obf } => json!({
                "t":"method",
                "range": range.map(|(s,e)| vec![s,e]),
                "ty":ty,"cls":cls,"name":name,"args":args,
                "orig": match orig { Orig::None => vec![], Orig::S(a) => vec![a], Orig::SE(a,b) => vec![a,b] },
                "obf":obf,
                "text": esc(&self.printed()),
            }),
            Line::Noise(b) => json!({"t":"noise","bytes":esc(b)}),
        }
    }

    pub fn from_json(v: &Value) -> Line {
        let s = |k: &str| leak(v[k].as_str().unwrap_or(""));
        let os = |k: &str| v[k].as_str().map(leak);
        match v["t"].as_str().unwrap_or("") {
            "class" => Line::Class { orig: s("orig"), obf: s("obf") },
            "sourcefile" => Line::SourceFile(s("name")),
            "header" => Line::Header { key: s("key"), value: os("value") },
            "field" => Line::Field { ty: s("ty"), orig: s("orig"), obf: s("obf") },
            "method" => {
                let range = v["range"].as_array().map(|a| (a[0].as_u64().unwrap(), a[1].as_u64().unwrap()));
                let o: Vec<u64> =
                    v["orig"].as_array().map(|a| a.iter().map(|x| x.as_u64().unwrap()).collect()).unwrap_or_default();
                let orig = match o.len() {
                    0 => Orig::None,
                    1 => Orig::S(o[0]),
                    _ => Orig::SE(o[0], o[1]),
                };
                Line::Method { range, ty: s("ty"), cls: os("cls"), name: s("name"), args: s("args"), orig, obf: s("obf") }
            }
            _ => Line::Noise(leak_bytes(&unesc(v["bytes"].as_str().unwrap_or("")))),
        }
    }
}

pub fn print_file(lines: &[Line], term: Term) -> Vec<u8> {
    let mut out = Vec::with_capacity(lines.len() * 32);
    print_file_into(lines, term, &mut out);
    out
}

pub fn print_file_into(lines: &[Line], term: Term, out: &mut Vec<u8>) {
    out.clear();
    let n = lines.len();
    for (i, l) in lines.iter().enumerate() {
        l.print_into(out);
        match term {
            Term::Lf => out.push(b'\n'),
            Term::CrLf => out.extend_from_slice(b"\r\n"),
            Term::Cr => out.push(b'\r'),
            Term::LfNoFinal => {
                if i + 1 < n {
                    out.push(b'\n')
                }
            }
            Term::LfLf => out.extend_from_slice(b"\n\n"),
        }
    }
}

pub fn file_to_json(lines: &[Line], term: Term) -> Value {
    json!({
        "kind": "ast",
        "term": term.name(),
        "lines": lines.iter().map(|l| l.to_json()).collect::<Vec<_>>(),
        "text": esc(&print_file(lines, term)),
    })
}

pub fn file_from_json(v: &Value) -> (Vec<Line>, Term) {
    let lines = v["lines"].as_array().map(|a| a.iter().map(Line::from_json).collect()).unwrap_or_default();
    (lines, Term::from_name(v["term"].as_str().unwrap_or("LF")))
}

// convenience constructors used by the scope definitions
pub fn class(orig: S, obf: S) -> Line {
    Line::Class { orig, obf }
}
pub fn method(range: Option<(u64, u64)>, cls: Option<S>, name: S, args: S, orig: Orig, obf: S) -> Line {
    Line::Method { range, ty: "void", cls, name, args, orig, obf }
}
