//! The finite query universe Q(M) derived mechanically from a mapping (DESIGN.md §2).

use crate::ast::{Line, Orig};

#[derive(Default, Debug, Clone)]
pub struct Universe {
    /// every obfuscated / original / foreign class name occurring in M
    pub classes: Vec<String>,
    /// near misses (name ± one trailing character), "" and an unknown name
    pub classes_other: Vec<String>,
    pub methods: Vec<String>,
    pub methods_other: Vec<String>,
    pub lines: Vec<usize>,
    /// the short line list used together with `classes_other`
    pub lines_short: Vec<usize>,
    pub params: Vec<String>,
    /// frame file names derived from class names of M (outer simple name + .kt / .java): a relation between the
    /// query and the mapping that independent values never produce
    pub files_derived: Vec<String>,
    /// known names with invisible affixes / changed case (different strings!): used for class, method and throwable
    /// lookups and one frame query each, not crossed with the line universe
    pub classes_affixed: Vec<String>,
    pub methods_affixed: Vec<String>,
}

fn push_unique(v: &mut Vec<String>, s: &str) {
    if !v.iter().any(|x| x == s) {
        v.push(s.to_string());
    }
}

fn affixed(v: &[String], out: &mut Vec<String>) {
    for n in v.iter().filter(|n| !n.is_empty() && n.len() < 200).take(3) {
        for cand in [format!("{}\n", n), format!("{}\r\n", n), format!("{} ", n), format!(" {}", n), format!("{}\u{a0}", n), format!("{}\0", n), n.to_uppercase(), n.to_lowercase(), format!("app//{}", n), format!("java.base/{}", n), format!("{}$$ExternalSyntheticLambda0", n)] {
            if !v.contains(&cand) {
                push_unique(out, &cand);
            }
        }
    }
}

fn near(v: &[String], out: &mut Vec<String>, unknown: &str) {
    for n in v {
        // giant names (>= 100 kB): one near miss only
        if n.len() >= 100_000 {
            let mut m = n.clone();
            m.pop();
            if !v.contains(&m) {
                push_unique(out, &m);
            }
            continue;
        }
        let plus = format!("{}x", n);
        if !v.contains(&plus) {
            push_unique(out, &plus);
        }
        if n.chars().count() > 1 {
            let mut m = n.clone();
            m.pop();
            if !v.contains(&m) {
                push_unique(out, &m);
            }
        }
    }
    if !v.iter().any(|x| x.is_empty()) {
        push_unique(out, "");
    }
    if !v.iter().any(|x| x == unknown) {
        push_unique(out, unknown);
    }
}

pub const EXTREME_LINES: [u64; 4] = [(1u64 << 32) - 2, (1u64 << 32) - 1, 1u64 << 32, u64::MAX];

impl Universe {
    pub fn from_names(
        classes: Vec<String>,
        methods: Vec<String>,
        params_in: Vec<String>,
        consts: &[u64],
        wide: bool,
    ) -> Universe {
        let mut u = Universe { classes, methods, ..Default::default() };
        near(&u.classes, &mut u.classes_other, "zz.Unknown");
        near(&u.methods, &mut u.methods_other, "zzUnknown");
        affixed(&u.classes, &mut u.classes_affixed);
        affixed(&u.methods, &mut u.methods_affixed);
        let mut params = params_in;
        // near misses of every argument string (a comparator that only looks at a prefix would confuse them)
        let base: Vec<String> = params.clone();
        for p in &base {
            if !p.is_empty() {
                push_unique(&mut params, &format!("{}x", p));
                let mut q = p.clone();
                q.pop();
                push_unique(&mut params, &q);
            }
        }
        push_unique(&mut params, "");
        push_unique(&mut params, "zz.Unknown");
        u.params = params;
        // lines: 0..=max(8, largest small constant + 2) (so: every line within 1 of every boundary and an
        // interior line of every range), plus neighbours of large constants, plus the extremes
        let mut lines: Vec<u64> = Vec::new();
        let small_max = consts.iter().copied().filter(|c| *c <= 200).max().unwrap_or(0);
        let top = if wide { 66.max(small_max + 2) } else { 8.max(small_max + 2) };
        for l in 0..=top {
            lines.push(l);
        }
        for &c in consts.iter().filter(|c| **c > 200) {
            for d in [c.wrapping_sub(1), c, c.wrapping_add(1)] {
                if !lines.contains(&d) {
                    lines.push(d);
                }
            }
        }
        for e in EXTREME_LINES {
            if !lines.contains(&e) {
                lines.push(e);
            }
        }
        // lines that alias a mapping constant modulo 2^32 / 2^63 (a narrowing cast in a reader would confuse them)
        for &c in consts.iter().filter(|c| **c > 0 && **c <= 200) {
            for base in [1u64 << 32, 1u64 << 63] {
                let l = base + c;
                if !lines.contains(&l) {
                    lines.push(l);
                }
            }
        }
        u.lines = lines.iter().map(|l| *l as usize).collect();
        if u.classes.iter().chain(u.methods.iter()).any(|n| n.len() >= 100_000) {
            // giant names: every comparison costs megabytes; keep the boundary lines only
            u.lines.retain(|l| *l <= 5 || *l == usize::MAX);
        }
        let mut short: Vec<usize> = vec![0, 1];
        if let Some(c) = consts.iter().find(|c| **c > 1) {
            short.push(*c as usize);
        }
        u.lines_short = short;
        for (ci, c) in u.classes.iter().filter(|c| c.len() < 200).take(4).enumerate() {
            let last = c.rsplit('.').next().unwrap_or(c);
            let outer = last.split('$').next().unwrap_or(last);
            if !outer.is_empty() {
                let f = format!("{}{}", outer, [".kt", ".java"][ci % 2]);
                if !u.files_derived.contains(&f) && u.files_derived.len() < 2 {
                    u.files_derived.push(f);
                }
            }
        }
        // the one magic file name of the format as the *frame's* file (what a JVM prints for R8-synthesized classes)
        u.files_derived.push("R8$$SyntheticClass".to_string());
        // parameter strings spelled the way `format_signature` prints them (", " between the types): other strings
        let spaced: Vec<String> = u.params.iter().filter(|p| p.contains(',') && p.len() < 200).map(|p| p.replace(',', ", ")).collect();
        for p in spaced {
            push_unique(&mut u.params, &p);
        }
        u
    }

    pub fn from_ast(lines: &[Line], wide: bool) -> Universe {
        let mut classes = Vec::new();
        let mut methods = Vec::new();
        let mut params = Vec::new();
        let mut consts = Vec::new();
        for l in lines {
            match *l {
                Line::Class { orig, obf } => {
                    push_unique(&mut classes, obf);
                    push_unique(&mut classes, orig);
                }
                Line::Method { range, cls, name, args, orig, obf, .. } => {
                    push_unique(&mut methods, obf);
                    push_unique(&mut methods, name);
                    if let Some(c) = cls {
                        push_unique(&mut classes, c);
                    }
                    push_unique(&mut params, args);
                    if let Some((s, e)) = range {
                        consts.push(s);
                        consts.push(e);
                    }
                    match orig {
                        Orig::None => {}
                        Orig::S(a) => consts.push(a),
                        Orig::SE(a, b) => {
                            consts.push(a);
                            consts.push(b)
                        }
                    }
                }
                _ => {}
            }
        }
        consts.sort();
        consts.dedup();
        Universe::from_names(classes, methods, params, &consts, wide)
    }

    pub fn all_classes(&self) -> impl Iterator<Item = &String> {
        self.classes.iter().chain(self.classes_other.iter())
    }
    pub fn all_methods(&self) -> impl Iterator<Item = &String> {
        self.methods.iter().chain(self.methods_other.iter())
    }
}

/// Query universes of a file: one for the whole file when it is small; for files of more than 40 lines one
/// universe per class block (the block's own names, near misses and constants) - every class and every entry
/// of the file is still queried, but names of one block are not crossed with the names of all others.
pub fn universes_for(lines: &[Line], wide: bool) -> Vec<Universe> {
    if lines.len() <= 40 {
        return vec![Universe::from_ast(lines, wide)];
    }
    let mut out = Vec::new();
    let mut start: Option<usize> = None;
    let mut cut = |s: usize, e: usize, out: &mut Vec<Universe>| {
        // long blocks: additionally split the entries into windows of 48 lines (the class line is kept in each)
        if e - s <= 49 {
            out.push(Universe::from_ast(&lines[s..e], wide));
        } else {
            let mut i = s + 1;
            while i < e {
                let j = (i + 48).min(e);
                let mut part = vec![lines[s]];
                part.extend_from_slice(&lines[i..j]);
                out.push(Universe::from_ast(&part, wide));
                i = j;
            }
        }
    };
    for (i, l) in lines.iter().enumerate() {
        if matches!(l, Line::Class { .. }) {
            if let Some(s) = start {
                cut(s, i, &mut out);
            }
            start = Some(i);
        }
    }
    if let Some(s) = start {
        cut(s, lines.len(), &mut out);
    }
    if out.is_empty() {
        out.push(Universe::from_ast(lines, wide));
    }
    out
}
