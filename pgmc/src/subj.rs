//! Thin, uniform access to the real code: the current tree (`proguard`) and the pinned 5.5.0
//! snapshot (`proguard_pinned`). Nothing here interprets answers.

use crate::fw::Aligned;

/// hash of a string for the distinct-outcome statistic: complete for short strings, length + both ends for long ones
/// (equality checks always compare the complete strings)
pub fn hash_str<H: std::hash::Hasher>(s: &str, h: &mut H) {
    use std::hash::Hash;
    if s.len() <= 96 {
        s.hash(h);
    } else {
        s.len().hash(h);
        s.as_bytes()[..32].hash(h);
        s.as_bytes()[s.len() - 32..].hash(h);
    }
}

impl std::hash::Hash for Fr<'_> {
    fn hash<H: std::hash::Hasher>(&self, h: &mut H) {
        hash_str(self.class, h);
        hash_str(self.method, h);
        self.line.hash(h);
        hash_str(self.file.unwrap_or("\u{0}none"), h);
        hash_str(self.params.unwrap_or("\u{0}none"), h);
    }
}

#[derive(Clone, Copy, PartialEq, Eq, Debug)]
pub struct Fr<'a> {
    pub class: &'a str,
    pub method: &'a str,
    pub line: usize,
    pub file: Option<&'a str>,
    pub params: Option<&'a str>,
}

/// A typed trace in owned, crate-independent form.
#[derive(Clone, PartialEq, Eq, Hash, Debug)]
pub struct OTrace {
    pub exception: Option<(String, Option<String>)>,
    pub frames: Vec<(String, String, usize, Option<String>)>,
    pub cause: Option<Box<OTrace>>,
}
impl OTrace {
    pub fn depth(&self) -> usize {
        match &self.cause {
            None => 0,
            Some(c) => 1 + c.depth(),
        }
    }
}

#[derive(Clone, PartialEq, Eq, Hash, Debug)]
pub struct OSig {
    pub params: Vec<String>,
    pub ret: String,
    pub formatted: String,
}

/// switched on by the C16 check: also run the iterator protocol on `parameters_types()` of every signature
pub static SIG_PROTOCOL: std::sync::atomic::AtomicBool = std::sync::atomic::AtomicBool::new(false);

pub trait Subj {
    fn label(&self) -> &'static str;
    fn remap_class<'a>(&'a self, class: &str) -> Option<&'a str>;
    fn remap_method<'a>(&'a self, class: &str, method: &str) -> Option<(&'a str, &'a str)>;
    fn remap_frame<'a>(
        &'a self,
        class: &'a str,
        method: &'a str,
        line: usize,
        file: Option<&'a str>,
        params: Option<&'a str>,
        out: &mut Vec<Fr<'a>>,
    );
    /// iterator protocol of the frame iterator for this query (see iterp.rs); None = conforms
    fn frame_protocol<'a>(&'a self, class: &'a str, method: &'a str, line: usize, file: Option<&'a str>, params: Option<&'a str>) -> Option<String>;
    /// class, message of the remapped throwable
    fn remap_throwable<'a>(&'a self, class: &'a str, message: Option<&'a str>) -> Option<(&'a str, Option<&'a str>)>;
    fn remap_stacktrace(&self, text: &str) -> Result<String, String>;
    /// parse `text` with StackTrace::try_parse, remap typed; (parsed, remapped, printed remapped)
    fn remap_typed_text(&self, text: &str) -> Option<(OTrace, OTrace, String)>;
    fn deobfuscate_signature(&self, sig: &str) -> Option<OSig>;
    /// build a typed trace from the owned form, remap it; (remapped, printed input, printed remapped)
    fn remap_typed(&self, t: &OTrace) -> (OTrace, String, String);
    /// typed trace whose frames are built with `StackFrame::with_parameters(class, method, params)`; the frames of
    /// the remapped trace, read through the accessors
    fn remap_typed_param_frames<'a>(&'a self, frames: &'a [(String, String, String)]) -> Vec<Fr<'a>>;
}

macro_rules! subject_module {
    ($modname:ident, $krate:ident, $mlabel:expr, $clabel:expr) => {
        pub mod $modname {
            use super::*;
            #[allow(unused_imports)]
            pub use $krate::{
                CacheError, CacheErrorKind, ProguardCache, ProguardMapper, ProguardMapping, ProguardRecord, StackFrame,
                StackTrace, Throwable,
            };

            pub fn own_trace(t: &StackTrace<'_>) -> OTrace {
                OTrace {
                    exception: t.exception().map(|e| (e.class().to_string(), e.message().map(|m| m.to_string()))),
                    frames: t
                        .frames()
                        .iter()
                        .map(|f| (f.class().to_string(), f.method().to_string(), f.line(), f.file().map(|s| s.to_string())))
                        .collect(),
                    cause: t.cause().map(|c| Box::new(own_trace(c))),
                }
            }

            pub fn build_trace<'a>(t: &'a OTrace) -> StackTrace<'a> {
                let exception = t.exception.as_ref().map(|(c, m)| match m {
                    Some(m) => Throwable::with_message(c, m),
                    None => Throwable::new(c),
                });
                let frames = t
                    .frames
                    .iter()
                    .map(|(c, m, l, f)| match f {
                        Some(f) => StackFrame::with_file(c, m, *l, f),
                        None => StackFrame::new(c, m, *l),
                    })
                    .collect();
                match &t.cause {
                    Some(c) => StackTrace::with_cause(exception, frames, build_trace(c)),
                    None => StackTrace::new(exception, frames),
                }
            }

            /// print -> parse -> compare / re-print (C17)
            pub fn roundtrip(t: &OTrace) -> Result<(), String> {
                let typed = build_trace(t);
                let printed = typed.to_string();
                let parsed = StackTrace::try_parse(printed.as_bytes()).ok_or_else(|| format!("printed trace does not parse: {:?}", printed))?;
                if parsed != typed {
                    return Err(format!("parse(print(t)) != t: printed {:?} parsed back as {:?}", printed, own_trace(&parsed)));
                }
                // the same comparison through the accessors (the library's own `==` is not the yardstick)
                let owned = own_trace(&parsed);
                if owned != *t {
                    return Err(format!("parse(print(t)) differs from t field by field although `==` holds: printed {:?} parsed back as {:?}", printed, owned));
                }
                if own_trace(&typed) != *t {
                    return Err(format!("parse(print(t)): the constructed trace does not report the parts it was built from: {:?}", own_trace(&typed)));
                }
                let again = parsed.to_string();
                if again != printed {
                    return Err(format!("print(parse(print(t))) != print(t): {:?} vs {:?}", again, printed));
                }
                Ok(())
            }
            /// text fix-point only (for frames without a file)
            pub fn text_fixpoint(t: &OTrace) -> Result<(), String> {
                let printed = build_trace(t).to_string();
                let parsed = StackTrace::try_parse(printed.as_bytes()).ok_or_else(|| format!("printed trace does not parse: {:?}", printed))?;
                let again = parsed.to_string();
                if again != printed {
                    return Err(format!("print(parse(print(t))) != print(t): {:?} vs {:?}", again, printed));
                }
                Ok(())
            }
            pub fn roundtrip_frame(class: &str, method: &str, line: usize, file: &str) -> Result<(), String> {
                let f = StackFrame::with_file(class, method, line, file);
                let printed = f.to_string();
                for cand in [printed.clone(), format!("    {}", printed), format!("\t{}  ", printed)] {
                    let p = StackFrame::try_parse(cand.as_bytes()).ok_or_else(|| format!("printed frame does not parse: {:?}", cand))?;
                    if p != f {
                        return Err(format!("parse(print(frame)) != frame for {:?}: {:?}", cand, p));
                    }
                    if (p.class(), p.method(), p.line(), p.file(), p.parameters()) != (class, method, line, Some(file), None) {
                        return Err(format!("parse(print(frame)) differs from the frame field by field although `==` holds, for {:?}: {:?}", cand, p));
                    }
                    if p.full_method() != format!("{}.{}", class, method) {
                        return Err(format!("full_method() of the parsed frame is {:?} for {:?}", p.full_method(), cand));
                    }
                    if p.to_string() != printed {
                        return Err(format!("re-printed frame differs: {:?} vs {:?}", p.to_string(), printed));
                    }
                }
                Ok(())
            }
            pub fn roundtrip_throwable(class: &str, message: Option<&str>) -> Result<(), String> {
                let t = match message {
                    Some(m) => Throwable::with_message(class, m),
                    None => Throwable::new(class),
                };
                let printed = t.to_string();
                let p = Throwable::try_parse(printed.as_bytes()).ok_or_else(|| format!("printed throwable does not parse: {:?}", printed))?;
                if p != t {
                    return Err(format!("parse(print(throwable)) != throwable for {:?}: {:?}", printed, p));
                }
                if (p.class(), p.message()) != (class, message) {
                    return Err(format!("parse(print(throwable)) differs from the throwable field by field although `==` holds, for {:?}: {:?}", printed, p));
                }
                if p.to_string() != printed {
                    return Err(format!("re-printed throwable differs: {:?}", p.to_string()));
                }
                Ok(())
            }

            fn mk_frame<'a>(
                class: &'a str,
                method: &'a str,
                line: usize,
                file: Option<&'a str>,
                params: Option<&'a str>,
            ) -> StackFrame<'a> {
                match (params, file) {
                    (Some(p), _) => StackFrame::with_parameters(class, method, p),
                    (None, Some(f)) => StackFrame::with_file(class, method, line, f),
                    (None, None) => StackFrame::new(class, method, line),
                }
            }

            impl<'s> Subj for ProguardMapper<'s> {
                fn label(&self) -> &'static str {
                    $mlabel
                }
                fn remap_class<'a>(&'a self, class: &str) -> Option<&'a str> {
                    ProguardMapper::remap_class(self, class)
                }
                fn remap_method<'a>(&'a self, class: &str, method: &str) -> Option<(&'a str, &'a str)> {
                    ProguardMapper::remap_method(self, class, method)
                }
                fn remap_frame<'a>(
                    &'a self,
                    class: &'a str,
                    method: &'a str,
                    line: usize,
                    file: Option<&'a str>,
                    params: Option<&'a str>,
                    out: &mut Vec<Fr<'a>>,
                ) {
                    out.clear();
                    let frame = mk_frame(class, method, line, file, params);
                    // SAFETY-free lifetime shortening: ProguardMapper<'s> is covariant in 's
                    let this: &'a ProguardMapper<'a> = self;
                    for f in this.remap_frame(&frame) {
                        out.push(Fr {
                            class: ext(f.class()),
                            method: ext(f.method()),
                            line: f.line(),
                            file: f.file().map(ext),
                            params: f.parameters().map(ext),
                        });
                    }
                }
                fn frame_protocol<'a>(&'a self, class: &'a str, method: &'a str, line: usize, file: Option<&'a str>, params: Option<&'a str>) -> Option<String> {
                    let frame = mk_frame(class, method, line, file, params);
                    let this: &'a ProguardMapper<'a> = self;
                    let fref: &StackFrame<'a> = &frame;
                    // SAFETY: the frame outlives every iterator created below (same reasoning as `ext`)
                    let fref: &'a StackFrame<'a> = unsafe { std::mem::transmute(fref) };
                    crate::iterp::iter_protocol(
                        &|| this.remap_frame(fref),
                        &|f: StackFrame<'_>| -> Fr<'a> { Fr { class: ext(f.class()), method: ext(f.method()), line: f.line(), file: f.file().map(ext), params: f.parameters().map(ext) } },
                        100_000,
                    )
                }
                fn remap_throwable<'a>(
                    &'a self,
                    class: &'a str,
                    message: Option<&'a str>,
                ) -> Option<(&'a str, Option<&'a str>)> {
                    let t = match message {
                        Some(m) => Throwable::with_message(class, m),
                        None => Throwable::new(class),
                    };
                    let this: &'a ProguardMapper<'a> = self;
                    this.remap_throwable(&t).map(|r| (ext(r.class()), r.message().map(ext)))
                }
                fn remap_stacktrace(&self, text: &str) -> Result<String, String> {
                    ProguardMapper::remap_stacktrace(self, text).map_err(|e| e.to_string())
                }
                fn remap_typed_text(&self, text: &str) -> Option<(OTrace, OTrace, String)> {
                    let t = StackTrace::try_parse(text.as_bytes())?;
                    let r = self.remap_stacktrace_typed(&t);
                    Some((own_trace(&t), own_trace(&r), r.to_string()))
                }
                fn deobfuscate_signature(&self, sig: &str) -> Option<OSig> {
                    ProguardMapper::deobfuscate_signature(self, sig).map(|d| OSig {
                        params: d.parameters_types().map(|s| s.to_string()).collect(),
                        ret: d.return_type().to_string(),
                        formatted: {
                            // the same signature through every public door: format_signature(), Display, and the
                            // parameter iterator's protocol (a discrepancy is folded into the observed text)
                            let a = d.format_signature();
                            let b = d.to_string();
                            let mut out = if a == b { a } else { format!("{} [Display prints {:?}]", a, b) };
                            if SIG_PROTOCOL.load(std::sync::atomic::Ordering::Relaxed) && d.parameters_types().count() >= 2 {
                                if let Some(p) = crate::iterp::iter_protocol(&|| d.parameters_types(), &|x: &str| x.to_string(), 100_000) {
                                    out.push_str(&format!(" [parameters_types(): {}]", p));
                                }
                            }
                            out
                        },
                    })
                }
                fn remap_typed(&self, t: &OTrace) -> (OTrace, String, String) {
                    let typed = build_trace(t);
                    let printed = typed.to_string();
                    let r = self.remap_stacktrace_typed(&typed);
                    (own_trace(&r), printed, r.to_string())
                }
                fn remap_typed_param_frames<'a>(&'a self, frames: &'a [(String, String, String)]) -> Vec<Fr<'a>> {
                    let fs: Vec<StackFrame<'a>> = frames.iter().map(|(c, m, p)| StackFrame::with_parameters(c, m, p)).collect();
                    let t = StackTrace::new(Some(Throwable::new("a.E")), fs);
                    let r = self.remap_stacktrace_typed(&t);
                    r.frames().iter().map(|f| Fr { class: ext(f.class()), method: ext(f.method()), line: f.line(), file: f.file().map(ext), params: f.parameters().map(ext) }).collect()
                }
            }

            impl<'s> Subj for ProguardCache<'s> {
                fn label(&self) -> &'static str {
                    $clabel
                }
                fn remap_class<'a>(&'a self, class: &str) -> Option<&'a str> {
                    ProguardCache::remap_class(self, class)
                }
                fn remap_method<'a>(&'a self, class: &str, method: &str) -> Option<(&'a str, &'a str)> {
                    ProguardCache::remap_method(self, class, method)
                }
                fn remap_frame<'a>(
                    &'a self,
                    class: &'a str,
                    method: &'a str,
                    line: usize,
                    file: Option<&'a str>,
                    params: Option<&'a str>,
                    out: &mut Vec<Fr<'a>>,
                ) {
                    out.clear();
                    let frame = mk_frame(class, method, line, file, params);
                    let this: &'a ProguardCache<'a> = self;
                    for f in this.remap_frame(&frame) {
                        out.push(Fr {
                            class: ext(f.class()),
                            method: ext(f.method()),
                            line: f.line(),
                            file: f.file().map(ext),
                            params: f.parameters().map(ext),
                        });
                    }
                }
                fn frame_protocol<'a>(&'a self, class: &'a str, method: &'a str, line: usize, file: Option<&'a str>, params: Option<&'a str>) -> Option<String> {
                    let frame = mk_frame(class, method, line, file, params);
                    let this: &'a ProguardCache<'a> = self;
                    let fref: &StackFrame<'a> = &frame;
                    // SAFETY: the frame outlives every iterator created below (same reasoning as `ext`)
                    let fref: &'a StackFrame<'a> = unsafe { std::mem::transmute(fref) };
                    crate::iterp::iter_protocol(
                        &|| this.remap_frame(fref),
                        &|f: StackFrame<'_>| -> Fr<'a> { Fr { class: ext(f.class()), method: ext(f.method()), line: f.line(), file: f.file().map(ext), params: f.parameters().map(ext) } },
                        100_000,
                    )
                }
                fn remap_throwable<'a>(
                    &'a self,
                    class: &'a str,
                    message: Option<&'a str>,
                ) -> Option<(&'a str, Option<&'a str>)> {
                    let t = match message {
                        Some(m) => Throwable::with_message(class, m),
                        None => Throwable::new(class),
                    };
                    let this: &'a ProguardCache<'a> = self;
                    this.remap_throwable(&t).map(|r| (ext(r.class()), r.message().map(ext)))
                }
                fn remap_stacktrace(&self, text: &str) -> Result<String, String> {
                    ProguardCache::remap_stacktrace(self, text).map_err(|e| e.to_string())
                }
                fn remap_typed_text(&self, text: &str) -> Option<(OTrace, OTrace, String)> {
                    let t = StackTrace::try_parse(text.as_bytes())?;
                    let r = self.remap_stacktrace_typed(&t);
                    Some((own_trace(&t), own_trace(&r), r.to_string()))
                }
                fn deobfuscate_signature(&self, sig: &str) -> Option<OSig> {
                    ProguardCache::deobfuscate_signature(self, sig).map(|d| OSig {
                        params: d.parameters_types().map(|s| s.to_string()).collect(),
                        ret: d.return_type().to_string(),
                        formatted: {
                            // the same signature through every public door: format_signature(), Display, and the
                            // parameter iterator's protocol (a discrepancy is folded into the observed text)
                            let a = d.format_signature();
                            let b = d.to_string();
                            let mut out = if a == b { a } else { format!("{} [Display prints {:?}]", a, b) };
                            if SIG_PROTOCOL.load(std::sync::atomic::Ordering::Relaxed) && d.parameters_types().count() >= 2 {
                                if let Some(p) = crate::iterp::iter_protocol(&|| d.parameters_types(), &|x: &str| x.to_string(), 100_000) {
                                    out.push_str(&format!(" [parameters_types(): {}]", p));
                                }
                            }
                            out
                        },
                    })
                }
                fn remap_typed(&self, t: &OTrace) -> (OTrace, String, String) {
                    let typed = build_trace(t);
                    let printed = typed.to_string();
                    let r = self.remap_stacktrace_typed(&typed);
                    (own_trace(&r), printed, r.to_string())
                }
                fn remap_typed_param_frames<'a>(&'a self, frames: &'a [(String, String, String)]) -> Vec<Fr<'a>> {
                    let fs: Vec<StackFrame<'a>> = frames.iter().map(|(c, m, p)| StackFrame::with_parameters(c, m, p)).collect();
                    let t = StackTrace::new(Some(Throwable::new("a.E")), fs);
                    let r = self.remap_stacktrace_typed(&t);
                    r.frames().iter().map(|f| Fr { class: ext(f.class()), method: ext(f.method()), line: f.line(), file: f.file().map(ext), params: f.parameters().map(ext) }).collect()
                }
            }

            /// Write the cache for `mapping` into memory.
            pub fn write_cache(mapping_bytes: &[u8]) -> Result<Vec<u8>, String> {
                let mapping = ProguardMapping::new(mapping_bytes);
                let mut buf = Vec::new();
                ProguardCache::write(&mapping, &mut buf).map_err(|e| e.to_string())?;
                Ok(buf)
            }

            /// the cache written from `parent.section(a..b)` (the parent is iterated and asked for its metadata first)
            pub fn write_cache_section(mapping_bytes: &[u8], a: usize, b: usize) -> Result<Vec<u8>, String> {
                let parent = ProguardMapping::new(mapping_bytes);
                let _ = parent.iter().count();
                let _ = (parent.has_line_info(), parent.is_valid());
                let sec = parent.section(a..b);
                let mut buf = Vec::new();
                ProguardCache::write(&sec, &mut buf).map_err(|e| e.to_string())?;
                Ok(buf)
            }

            /// Build all three subjects from mapping bytes and hand them to `f`.
            /// Err(String) = the cache could not be written or parsed.
            pub fn with_subjects<R>(
                mapping_bytes: &[u8],
                abuf: &mut Aligned,
                f: impl FnOnce(&ProguardMapper<'_>, &ProguardMapper<'_>, &ProguardCache<'_>, &[u8]) -> R,
            ) -> Result<R, String> {
                // both public ways to build a mapper: `new*(ProguardMapping)` and the `From<&str>` / `From<(&str, bool)>`
                // conversions (valid UTF-8 only); which one a state uses is a fixed function of its bytes
                let via_from = match std::str::from_utf8(mapping_bytes) {
                    Ok(text) if crate::fw::h64(mapping_bytes) & 1 == 1 => Some(text),
                    _ => None,
                };
                let mapper = match via_from {
                    Some(text) => ProguardMapper::from(text),
                    None => ProguardMapper::new(ProguardMapping::new(mapping_bytes)),
                };
                let mapper_p = match via_from {
                    Some(text) => ProguardMapper::from((text, true)),
                    None => ProguardMapper::new_with_param_mapping(ProguardMapping::new(mapping_bytes), true),
                };
                let bytes = write_cache(mapping_bytes).map_err(|e| format!("write failed: {}", e))?;
                abuf.set(&bytes);
                let cache = ProguardCache::parse(abuf.as_slice()).map_err(|e| format!("parse failed: {:?}", e.kind()))?;
                Ok(f(&mapper, &mapper_p, &cache, abuf.as_slice()))
            }
        }
    };
}

/// The public accessors (`StackFrame::class(&self) -> &str` …) tie the returned slice to the borrow
/// of the frame although the data lives as long as the mapping / cache / query (`&'s str` fields).
/// The frames produced by the iterators are temporaries, so the slices are re-labelled with the
/// lifetime they really have. Every caller keeps mapping bytes, cache buffer and query strings alive
/// for `'a`.
#[inline]
fn ext<'a>(s: &str) -> &'a str {
    // SAFETY: see above; the pointee is owned by the mapping bytes, the cache buffer or the query.
    unsafe { std::mem::transmute::<&str, &'a str>(s) }
}

subject_module!(cur, proguard, "mapper", "cache");
subject_module!(pin, proguard_pinned, "pinned-mapper", "pinned-cache");
