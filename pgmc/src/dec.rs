//! Independent decoder of the ProguardCache on-disk format, written only from the format
//! description (src/cache/mod.rs module docs + the field docs of Header / Class / Member):
//!
//!   header  : 6 x u32 LE  magic "PRGC", version, num_classes, num_members, num_members_by_params, string_bytes
//!   classes : num_classes x 7 u32   (obfuscated name, original name, file name, members offset, members len,
//!                                    by-params offset, by-params len)
//!   members : num_members x 9 u32   (obfuscated name, startline, endline, original class, original file,
//!                                    original name, original startline, original endline, params)
//!   members_by_params : num_members_by_params x 9 u32
//!   strings : string_bytes bytes; a string = LEB128 length + UTF-8 bytes, referenced by offset
//!   every section starts at the next multiple of 8 (zero padding); u32::MAX = "absent"

pub const MAGIC: u32 = u32::from_le_bytes(*b"PRGC");
pub const ABSENT: u32 = u32::MAX;
pub const CLASS_SIZE: usize = 28;
pub const MEMBER_SIZE: usize = 36;
pub const HEADER_SIZE: usize = 24;

#[derive(Clone, Copy, Debug, PartialEq, Eq)]
pub struct DHeader {
    pub magic: u32,
    pub version: u32,
    pub num_classes: u32,
    pub num_members: u32,
    pub num_by_params: u32,
    pub string_bytes: u32,
}

#[derive(Clone, Copy, Debug, PartialEq, Eq)]
pub struct DClass {
    pub obf: u32,
    pub orig: u32,
    pub file: u32,
    pub members_off: u32,
    pub members_len: u32,
    pub bp_off: u32,
    pub bp_len: u32,
}

#[derive(Clone, Copy, Debug, PartialEq, Eq)]
pub struct DMember {
    pub obf: u32,
    pub startline: u32,
    pub endline: u32,
    pub orig_class: u32,
    pub orig_file: u32,
    pub orig_name: u32,
    pub orig_start: u32,
    pub orig_end: u32,
    pub params: u32,
}

#[derive(Clone, Copy, Debug, PartialEq, Eq)]
pub struct Layout {
    pub classes_at: u64,
    pub members_at: u64,
    pub bp_at: u64,
    pub strings_at: u64,
    pub total: u64,
}

pub fn up8(x: u64) -> u64 {
    (x + 7) & !7
}

pub fn layout(h: &DHeader) -> Layout {
    let classes_at = up8(HEADER_SIZE as u64);
    let members_at = up8(classes_at + h.num_classes as u64 * CLASS_SIZE as u64);
    let bp_at = up8(members_at + h.num_members as u64 * MEMBER_SIZE as u64);
    let strings_at = up8(bp_at + h.num_by_params as u64 * MEMBER_SIZE as u64);
    Layout { classes_at, members_at, bp_at, strings_at, total: strings_at + h.string_bytes as u64 }
}

pub fn u32_at(b: &[u8], off: usize) -> u32 {
    u32::from_le_bytes([b[off], b[off + 1], b[off + 2], b[off + 3]])
}
pub fn put_u32(b: &mut [u8], off: usize, v: u32) {
    b[off..off + 4].copy_from_slice(&v.to_le_bytes());
}

pub fn header(b: &[u8]) -> Option<DHeader> {
    if b.len() < HEADER_SIZE {
        return None;
    }
    Some(DHeader {
        magic: u32_at(b, 0),
        version: u32_at(b, 4),
        num_classes: u32_at(b, 8),
        num_members: u32_at(b, 12),
        num_by_params: u32_at(b, 16),
        string_bytes: u32_at(b, 20),
    })
}

pub struct Decoded<'a> {
    pub header: DHeader,
    pub layout: Layout,
    pub classes: Vec<DClass>,
    pub members: Vec<DMember>,
    pub by_params: Vec<DMember>,
    pub strings: &'a [u8],
}

fn member_at(b: &[u8], off: usize) -> DMember {
    DMember {
        obf: u32_at(b, off),
        startline: u32_at(b, off + 4),
        endline: u32_at(b, off + 8),
        orig_class: u32_at(b, off + 12),
        orig_file: u32_at(b, off + 16),
        orig_name: u32_at(b, off + 20),
        orig_start: u32_at(b, off + 24),
        orig_end: u32_at(b, off + 28),
        params: u32_at(b, off + 32),
    }
}

/// Decode a complete file; every structural requirement of the documented layout is checked.
pub fn decode(b: &[u8]) -> Result<Decoded<'_>, String> {
    let h = header(b).ok_or("header: file shorter than the 24-byte header")?;
    if h.magic != MAGIC {
        return Err(format!("magic: {:08x} is not PRGC", h.magic));
    }
    if h.version != 1 {
        return Err(format!("version: {} is not 1", h.version));
    }
    let l = layout(&h);
    if b.len() as u64 != l.total {
        return Err(format!("length: file length {} differs from the length {} implied by the header", b.len(), l.total));
    }
    let pad_zero = |from: u64, to: u64, what: &str| -> Result<(), String> {
        for i in from..to {
            if b[i as usize] != 0 {
                return Err(format!("padding: non-zero padding byte before the {} section at offset {}", what, i));
            }
        }
        Ok(())
    };
    let classes_end = l.classes_at + h.num_classes as u64 * CLASS_SIZE as u64;
    let members_end = l.members_at + h.num_members as u64 * MEMBER_SIZE as u64;
    let bp_end = l.bp_at + h.num_by_params as u64 * MEMBER_SIZE as u64;
    pad_zero(HEADER_SIZE as u64, l.classes_at, "classes")?;
    pad_zero(classes_end, l.members_at, "members")?;
    pad_zero(members_end, l.bp_at, "members-by-params")?;
    pad_zero(bp_end, l.strings_at, "string")?;
    let mut classes = Vec::new();
    for i in 0..h.num_classes as usize {
        let o = l.classes_at as usize + i * CLASS_SIZE;
        classes.push(DClass {
            obf: u32_at(b, o),
            orig: u32_at(b, o + 4),
            file: u32_at(b, o + 8),
            members_off: u32_at(b, o + 12),
            members_len: u32_at(b, o + 16),
            bp_off: u32_at(b, o + 20),
            bp_len: u32_at(b, o + 24),
        });
    }
    let members = (0..h.num_members as usize).map(|i| member_at(b, l.members_at as usize + i * MEMBER_SIZE)).collect();
    let by_params = (0..h.num_by_params as usize).map(|i| member_at(b, l.bp_at as usize + i * MEMBER_SIZE)).collect();
    Ok(Decoded { header: h, layout: l, classes, members, by_params, strings: &b[l.strings_at as usize..] })
}

/// LEB128 length prefix + UTF-8 bytes
pub fn read_str(strings: &[u8], off: u32) -> Result<&str, String> {
    let mut i = off as usize;
    if i >= strings.len() {
        return Err(format!("string offset {} outside the string section ({} bytes)", off, strings.len()));
    }
    let mut len: u64 = 0;
    let mut shift = 0;
    loop {
        let byte = *strings.get(i).ok_or_else(|| format!("LEB128 length at offset {} runs off the string section", off))?;
        i += 1;
        if shift >= 63 {
            return Err(format!("LEB128 length at offset {} too long", off));
        }
        len |= ((byte & 0x7f) as u64) << shift;
        shift += 7;
        if byte & 0x80 == 0 {
            break;
        }
    }
    let end = (i as u64).checked_add(len).ok_or("length overflow")?;
    if end > strings.len() as u64 {
        return Err(format!("string at offset {} (length {}) runs off the string section", off, len));
    }
    std::str::from_utf8(&strings[i..end as usize]).map_err(|e| format!("string at offset {} is not UTF-8: {}", off, e))
}

/// all valid string start offsets of a well-formed string section (walks the section from 0)
pub fn string_starts(strings: &[u8]) -> Result<Vec<u32>, String> {
    let mut v = Vec::new();
    let mut i = 0usize;
    while i < strings.len() {
        v.push(i as u32);
        let s = read_str(strings, i as u32)?;
        // advance: prefix length + payload
        let mut plen = 1;
        let mut n = s.len() as u64;
        while n >= 0x80 {
            plen += 1;
            n >>= 7;
        }
        i += plen + s.len();
    }
    Ok(v)
}
