#!/usr/bin/env python3
"""Regenerates /verif/MANIFEST.json from the table below (kept in one place so that it stays valid)."""
import json, os
V = os.path.dirname(os.path.dirname(os.path.abspath(__file__)))
props = [json.loads(l) for l in open(os.path.join(V, "properties.jsonl"))]
ids = [p["id"] for p in props]

# id -> (engine, category, technique, text, note, design_ref)
C = {}
def add(i, engine, cat, tech, text, note, ref):
    C[i] = dict(engine=engine, cat=cat, tech=tech, text=text, note=note, ref=ref)

FAMILIES = (" Besides depth-bounded histories over small alphabets the scopes contain explicit families enumerated completely: MS-S scale (classes of 20..129 entries, "
            "20..301 class lines, inline depth 31..100, names of 127..65537 bytes), MS-U character classes (105 special characters in every kind of name; sort pool pairs/triples; "
            "synthetic-file name shapes), MS-R name relations, MS-S(f) sorted runs (one method with 16..100 ascending disjoint ranges plus one irregular entry - inverted, enclosing, range-less, 0:0, duplicate - at every position), "
            "MS-M R8 metadata comments (rewriteFrame / synthesized / outline / outlineCallsite / residualsignature at column 0 and indented, at every position of a small mapping), MS-V late first member (48..60 member-less class / header / noise lines in front of the first class with members), MS-W file-level headers (compiler R8 / D8 / ProGuard, compiler_version, min_api, pg_map_id ... before classes whose members are not ordered by obfuscated name), and the 7 corpus files. Q(M) also contains the format's magic file name as the frame's own file, ', '-spelled parameter lists, and known names with module prefixes / a '$$' suffix.")
MODEL_NOTE = ("Trusted: rustc/std; the reference model pgmc/src/model.rs (a re-statement of the property text evaluated on the "
              "generating AST - the oracle contains no parser); the AST printer. Bounded: alphabets and depths listed in the evidence "
              "file; data values outside the alphabets are not explored.")
add("C01", "E1 mapspace", "model_checking", "bounded-exhaustive explicit-state exploration of mapping histories on the real code vs a reference model",
    "Every mapping history of the listed scopes (all line sequences up to the depth bound over alphabets of ranges/originals/classes/headers/noise) is "
    "built on the real mapper (with and without index) and the real cache writer+reader, and the complete line-based query universe of the history is "
    "compared answer-for-answer with the reference model; for every distinct non-empty answer the frame iterator is also consumed through nth/skip/step_by/last/count/size_hint and must show the sequence of repeated next(); mappers are built through new*() and through the From conversions. Exhaustive within the stated bounds; nothing is sampled." + FAMILIES, MODEL_NOTE, "DESIGN.md §4 C01, §11.5")
add("C03", "E1 mapspace", "model_checking", "bounded-exhaustive explicit-state exploration of mapping histories on the real code vs a reference model",
    "All histories up to depth 5 (13-line alphabet) / 4 (24-line alphabet) incl. repeated entries across re-declared classes, plus name tables up to 300 classes; "
    "all (class, method, parameter-string) triples of each history's universe against mapper-with-index and cache vs model rule R10, the mapper built without the index (outside the statement) must be silent or answer like the model; noise lines incl. R8's indented member comments inside inline groups (MS-E); iterator protocol (nth/skip/step_by/last/count/size_hint) on every distinct non-empty answer." + FAMILIES,
    MODEL_NOTE, "DESIGN.md §4 C03")
add("C04", "E1 mapspace", "model_checking", "bounded-exhaustive explicit-state exploration of name tables on the real code vs a reference model",
    "All ordered selections of <=3 names (and subsets of 4-5) from a pool of 14 adversarially similar names as class tables and method tables, large-N tables up to 300 classes, "
    "all block-bookkeeping histories up to depth 4; every name, near miss, empty and unknown string looked up; consistency clause checked on every line of the universe. Handle-history pass: for every ordered pair of 7 small mappings x 28 last queries x 28 first queries a cache (and a mapper) is created, queried, dropped and a second one created at the same address; its first and repeated (cloned handle) answers must come from the new contents. Pair-sequence pass: every ordered pair of a 64-query pool (all query kinds over ambiguous / overloaded / inlined names) back to back on ONE long-lived cache, mapper and mapper-with-index; every answer must be what a handle of its own gives." + FAMILIES,
    MODEL_NOTE, "DESIGN.md §4 C04")

add("C02", "E1 mapspace", "model_checking", "bounded-exhaustive exploration of mapping histories and token strings on the real code, differential oracle (mapper vs cache)",
    "Every mapping of every E1 scope, every string of <=5 (thorough 6) tokens over a 16-token alphabet that lies in the representable domain, and every class block of the 7 corpus files: "
    "the complete query universe (class, method, frames by line and by parameters, throwable, text and typed traces, signatures) is answered by the mapper, the mapper with index and the cache written and parsed back; "
    "any difference is a violation; the frame iterators of mapper and cache must also satisfy the iterator protocol (nth/skip/step_by/last/count/size_hint = repeated next()). Exhaustive within the stated bounds." + FAMILIES,
    "Trusted: rustc/std. No model involved. The domain filter for token strings and corpus files uses the implementation's own record iterator (itself checked by C05/C06).", "DESIGN.md §4 C02")

add("C09", "E1 mapspace", "model_checking", "bounded-exhaustive exploration of mapping histories; every written file decoded by an independent decoder and compared with model-derived counts, orders and contents",
    "For every mapping of the scopes (all histories up to depth 5, name tables up to 300 classes, string-length family crossing the 1/2/3-byte LEB128 boundaries, corpus) the real writer's bytes are decoded by a decoder "
    "written only from the format documentation: magic/version/counts, strict class order, exact tiling of both member sections, member and by-params order, 8-byte alignment with zero padding, declared string-section length, "
    "every referenced offset at a string start and valid UTF-8, sentinel only in optional roles; the library's self-test must accept the file.",
    "Trusted: rustc/std; pgmc/src/dec.rs; the reference model for expected counts/orders. String uniqueness is not demanded.", "DESIGN.md §4 C09")
add("C10", "E1 mapspace", "model_checking", "bounded-exhaustive exploration of (writer release, reader release) histories on two real builds linked into one binary, differential oracle",
    "For every mapping of the scopes and both writers (vendored 5.5.0 snapshot, current tree) the file is parsed by both readers; a reader may reject only with WrongVersion, otherwise the complete query universe "
    "must be answered identically by both readers. All four (writer, reader) pairs, every state. Families as in C02 plus MS-H2 far-apart repeats (two entries sharing their original name with 23000 (66000) filler methods / > 65536 distinct strings between them).",
    "Trusted: rustc/std; the vendored snapshot /verif/pinned as 'the pinned release'.", "DESIGN.md §4 C10")
add("C11", "E4 bytefault", "fault_enumeration", "exhaustive enumeration of crash points (every strict prefix) and single-field header edits of every base file, real parser, layout-derived oracle",
    "Every strict prefix of every base cache file (tens of thousands of files from exhaustive mapping scopes) and every single-field edit of the 24-byte header are parsed by the real parser; the expected verdict "
    "(error kind, in precedence order) is computed from the documented layout by the independent decoder; an accepted prefix must answer the whole query universe like the full file. The prefix clause is also applied with the file in a buffer at an address = 4 (mod 8) (the parser asks for 4-byte alignment only). Foreign buffers that are not edited caches (mapping texts, 16 other formats' signatures, constant bytes): >= 24 bytes and neither magic => the format error.",
    "Trusted: rustc/std; layout arithmetic in pgmc/src/dec.rs. Error kinds are compared in 8-aligned buffers. Prefixes shorter than the header may be rejected with any error kind.", "DESIGN.md §4 C11")
add("C12", "E4 bytefault", "fault_enumeration", "deviation-bounded exhaustive corruption of valid cache files (bound 1 on all base files, bound 2 on a few), real parser and full query universe on every accepted buffer",
    "Every 32-bit field set to every boundary value, every single-bit flip, every string-section byte edit, every adjacent record swap/duplication of every base file (deviation bound 1), and all pairs of field edits on a few files "
    "(bound 2); each buffer the parser accepts is queried with the full universe incl. lines 0, 2^32 and 2^64-1 with overflow checks compiled in; every returned string must lie inside the buffer or the query. The valid file at address residues 1 / 2 / 4 (mod 8) and every field edit at residue 4 likewise; in files with <= 40 strings every name offset is redirected to every string start (incl. a 9-class table whose names share a 16-byte prefix).",
    "Trusted: rustc/std; overflow-checks/debug-assertions build profile; address-range check on returned slices. Debug/Display helpers and ProguardCache::test() are outside the property's list.", "DESIGN.md §4 C12")

TEXT_NOTE = "Trusted: rustc/std. Bounded: the alphabets and depths listed in the evidence file; bytes outside the alphabets are not explored."
add("C05", "E2 textspace", "model_checking", "bounded-exhaustive enumeration of record ASTs, their documented malformations and all short token strings, real parser vs AST / independent recogniser",
    "Every record AST of a ~10^5-line space (all combinations of the optional groups, numbers 0..2^40, identifiers with $ < > - [] digits non-ASCII) is printed and parsed alone (4 terminators) and inside a file (LF, CRLF, lone CR, blank lines between; a qualified method also behind the class line of that very class); the record must carry exactly the AST's parts. "
    "Every documented malformation of those lines must be an error carrying the offending line. All strings of <=7 (thorough 8) tokens over a 12-token alphabet are judged by an independent recogniser of the documented grammar. Every corpus line alone vs in its file.",
    TEXT_NOTE + " The recogniser's NAME is deliberately narrow; outside it no claim is made.", "DESIGN.md §4 C05")
add("C06", "E2 textspace", "model_checking", "bounded-exhaustive enumeration of byte strings, token strings and (A,B) pairs on the real record iterator; invariant + compositionality oracle",
    "All byte strings of length <=7 over 9 symbols, all strings of <=5 (thorough 6) tokens over 16 hostile tokens, every LF split of each, all pairs (A<=4 tokens, B<=2 tokens), and line-boundary splits of the corpus: "
    "iteration ends within len+1 items without panic, no yielded string contains CR/LF, records(A+LF+B) = records(A)++records(B); iterator-protocol family (every file of <=4 lines over 8 line kinds x 4 terminators: positional access = repeated next(), clones, section(0..len)); has_line_info()/summary() equal the fold over the records behind 99..100000 malformed lines; every section(a..b) of four small texts with multi-byte characters iterates like a fresh mapping over those bytes; every yielded str is valid UTF-8; every token string and a 7^4 boundary-numeral family also go through ProguardMapper::new and ProguardCache::write (the property's other observation points), which must not panic.",
    TEXT_NOTE + " Reading I3: zero-length error items are ignored. Corpus files > 100 kB are split at a stride of line boundaries (stated in the evidence).", "DESIGN.md §4 C06")
add("C19", "E2 textspace", "model_checking", "bounded-exhaustive enumeration of files over a 14-line alphabet plus positional families, real metadata API vs an independent fold over the record stream",
    "Every file of <=6 (thorough 7) lines over 14 line kinds (with and without final newline) and positional families around the 50-item window (incl. whitespace-only lines) and late line-mapped methods, almost-numeric header values, line mappings that point at original line 0 or start beyond 2^32: has_line_info, is_valid and the five summary fields must equal an independent fold over iter().",
    TEXT_NOTE + " The record stream itself is the subject of C05/C06.", "DESIGN.md §4 C19")

add("C07", "E3 tracespace", "model_checking", "bounded-exhaustive enumeration of trace texts on the real mapper and cache vs a text model with an independent line classifier",
    "Every text of <=4 (thorough 5) lines over 36 line shapes x 3 terminator policies x 4 mappings (one with R8's indented metadata comments below its member lines) x {mapper (for every second mapping the one built with the parameter index), cache} is remapped by the real code and compared with the text model R12 (throwable first / cause prefix / frames / verbatim); with a mapping that knows none of the names the output must be the normalised input.",
    TEXT_NOTE + " Trusted: the text model and line classifier in pgmc/src/props/e3.rs; str::lines splitting semantics.", "DESIGN.md §4 C07")
add("C08", "E3 tracespace", "model_checking", "bounded-exhaustive enumeration of typed traces (levels x cause chains) on the real mapper and cache vs model R13 and vs the text API",
    "Every typed trace over 126 top levels and cause chains up to depth 3 (thorough 4) x 2 mappings x {mapper, cache}: same depth, every throwable remapped-or-identical, every frame expanded-or-identical, nothing dropped; and the printed typed result must equal the text API's output on the printed input. Plus with_parameters frames (21 triples incl. names in prefix relation with a '$' continuation), run-length traces, and two-frame traces at every line of a method with 16 / 32 ascending ranges and an enclosing range at every position; the mappings carry R8's indented metadata comments.",
    TEXT_NOTE + " Canonical printed form as stated in the evidence assumptions.", "DESIGN.md §4 C08")
add("C16", "E3 tracespace", "model_checking", "bounded-exhaustive enumeration of descriptors, all their single-character edits and all short strings, real mapper and cache vs an independent JVM descriptor parser",
    "All 1813 (thorough 42k) descriptors over a 6- (8-)type alphabet, each single-character deletion/substitution/insertion over a 10-character alphabet, and all strings of <=6 (7) characters, x 3 mappings x {mapper, cache}: valid descriptors must give exactly the R14 parameter list, return type and formatted signature; strings without parenthesised list / return type / with an unterminated object type must give none; mapper == cache on every string. Every answer is read through the accessors, format_signature() and Display; parameters_types() must satisfy the iterator protocol; handle-history and pair-sequence passes; class-table family (every ordered selection of <= 3 of 14 obfuscated class names differing in '.', '$', '-' or a non-ASCII character at one place, as class tables x a descriptor naming each); class names containing ', ' / blanks / ': ' / quotes / backslash / '$$'; every number of array dimensions 1..300.",
    TEXT_NOTE + " Trusted: descriptor parser + R14 in pgmc/src/props/c16.rs.", "DESIGN.md §4 C16")
add("C17", "E3 tracespace", "model_checking", "bounded-exhaustive enumeration of traces, frames and throwables; real printer and parser; round-trip oracle",
    "28 throwables x 180 frames (5 methods incl. ': ' and blank, 10 files incl. ') [', ') ~[', 'r8-map-id-...', 'Native Method'; 21 messages incl. trailing colons, 'null', frame-like endings - each also on a first-level cause line) x top-level present/absent x 0..2 frames x cause chains up to depth 3 (4): parse(print(t)) == t and print(parse(print(t))) == print(t); single frames (3 indentations) and throwables likewise; frames without file: text fix-point.",
    TEXT_NOTE + " Domain restrictions as in the evidence assumptions (taken from the statement).", "DESIGN.md §4 C17")

add("C13", "E2 textspace", "model_checking", "bounded-exhaustive enumeration of hostile mappings (token strings + structured hostile numerals) and query strings through the whole real pipeline; totality oracle",
    "Every string of <=5 (6) tokens over 19 hostile tokens, every class+entry mapping with all four numbers from 7 hostile numerals (and pairs over a sub-alphabet) goes through mapper (both flags), cache write, parse and all queries incl. lines 0, 2^32, 2^64-1; "
    "every string of <=6 (7) symbols over descriptor characters / trace tokens is used as signature / trace text. No panic (overflow checks compiled in), no Err. Parameter strings incl. unbalanced parentheses / multi-byte ends; the handle-history pass (second handle in recycled memory). A scale family (cause depth / frame count up to 200000, in a subprocess) is reported separately.",
    TEXT_NOTE + " Overflow checks and debug assertions compiled into the subject. Known finding K1 (typed-trace recursion at depth 200000) is listed in known_findings.txt.", "DESIGN.md §4 C13")
add("C14", "E7 multiproc", "exploration", "exhaustive enumeration of inputs x a finite harness-owned set of hash seeds (separately started processes under a getrandom shim), byte-for-byte comparison",
    "Every mapping of the scopes (all histories up to depth 4 (5), file-rule and name-table families, a wide family with >=6 keys per hash container, corpus) is serialised in 8 (24) separately started processes with owned hash seeds + 2 with OS seeds; in each process twice in a row, for every 64th input from two concurrent threads and at all 8 address residues, and for every 4th input after four writes that failed part-way on the same thread and through BufWriter (4 capacities) / Cursor / LineWriter sinks; one input is a 17 MiB mapping of 24000 classes and one of the processes is pinned to a single CPU; all byte strings must be identical and as long as the header implies.",
    "Trusted: rustc/std; the getrandom shim. The 2^128 seed space is not enumerable: seeds are a finite owned set (the evidence reports how many distinct iteration orders they produced); exhaustive is the input dimension.", "DESIGN.md §4 C14")
add("C15", "E5 sinkfault", "fault_enumeration", "deviation-bounded exhaustive exploration of sink behaviours (run, record calls, branch on every later call) around the real writer",
    "17 mappings (every padding site exercised / not) x every sink script with <=4 (5) deviations from 'accept everything' (short by 1/2/3/len-1 bytes, Ok(0), Interrupted, sticky or one-shot hard error, one-shot WouldBlock at any call) + uniform k-byte sinks k=1..16 (+ 37, 4095..4097, 65535, 65536) + subjects of 147..2341 classes (deviation bound 1 at every call) and 20000 / 40000 classes (deviation bound 1 at selected calls): success implies the accepted bytes are exactly the canonical file; a hard failure or Ok(0) implies an error; delivered bytes are always a prefix; short writes and interruptions alone never fail the write.",
    "Trusted: rustc/std; the scripted sink. Canonical = bytes written into a Vec by the same build.", "DESIGN.md §4 C15")
add("C18", "E7 multiproc", "exploration", "exhaustive enumeration of a small input space x separately started processes, real uuid() vs an independent SHA-1 / RFC 4122 v5 implementation",
    "4430 inputs (all byte strings <=5 over {a,LF,CR,00,ff}; every length 0..200 and around every multiple of 64 up to 4 KiB; 1 MiB; corpus as is / CRLF / without final newline) compared with an independent SHA-1-based v5 computation (validated against FIPS 180 vectors), in the driver and in 6 (16) separately started processes, each starting with two threads racing on the lazily built namespace.",
    "Trusted: rustc/std; pgmc/src/sha1.rs. The function delegates to uuid/sha1_smol; weakest use of the technique in the set.", "DESIGN.md §4 C18")
add("C20", "E6 sched", "model_checking", "exhaustive schedule exploration of real threads sharing one mapper/cache/mapping under three controlled schedulers: shuttle check_dfs and a baton scheduler over OS threads (scheduling point before every API step, all interleavings), and the wp scheduler (the shared objects are write-protected with mprotect; every store of the subject into them is a scheduling point inside the call, single-stepped via the x86 trap flag; preemption-bounded stateless DFS, bound 2 quick / 3 thorough); plus a run-time auto-trait gate and a call-history pass",
    "Send+Sync table for 20 public handle/iterator/result types (a missing auto trait is a violation naming the type). All 256 ordered pairs of 16 API scripts x 3 steps, a section script (uuid / summary / has_line_info of sections of the shared mapping) against the mapping scripts, warm configurations (6 query kinds x {mapper, cache} x memo capacities 16..1024 (thorough 8..1024): a 1100-class handle first serves C distinct queries, then one thread re-asks the oldest while another asks new ones; capacity 0 = a fresh handle whose lazily built state races on first use) + three 3-thread configurations (thorough: + all pairs x 5 steps, + 216 triples x 2 steps, six triples x 3 steps): every schedule is executed on fresh real objects and every thread must observe exactly what its script observes alone. wp reports how many locations of the shared objects are stored to during queries (0 on this tree: no thread can observe another one mid-call) and runs a canary (lost update on a racy counter must be found) in every run. A free-running OS-thread pass and a contention pass (4 threads x 4000 queries per kind on a 1100-class handle, 8 threads on a 600-cause trace: the only reach into races on the subject's own statics) are labelled sampling.",
    "Trusted: rustc/std auto traits; shuttle 0.9.3; pgmc/src/wp.rs + Linux mprotect / x86-64 trap-flag semantics. wp does not intercept the subject's own statics / thread-locals (reached at call granularity by the history pass and the baton scheduler) and explores sequentially consistent interleavings only.", "DESIGN.md §4 C20, §11.7")

manifest = {
    "version": 1,
    "setup_cmd": "mkdir -p target && (cd pgmc && CARGO_NET_OFFLINE=true cargo build --release --offline) && (test ! -f shim/getrandom_shim.c || gcc -O2 -shared -fPIC -o shim/getrandom_shim.so shim/getrandom_shim.c)",
    "hooks": {
        "guard": "none (no hooks: every property is observable through the public API; --cfg getsentry_rust_proguard_verif is reserved and unused)",
        "enable": "not applicable: checks link /repo's working tree unmodified as a path dependency of /verif/pgmc",
        "baseline_off_cmd": "cd /repo && cargo test --workspace --no-fail-fast --offline",
        "source_commits": [],
        "add_only": True,
    },
    "engines": [
        {"name": "E2 textspace", "path": "pgmc/src/props/c05.rs pgmc/src/props/c06.rs pgmc/src/props/c19.rs", "serves_properties": [i for i in C if C[i]["engine"].startswith("E2")],
         "kind_free_text": "DFS over byte / token / line strings; real parser on every string; AST, recogniser, compositionality and fold oracles"},
        {"name": "E3 tracespace", "path": "pgmc/src/props/e3.rs pgmc/src/props/c16.rs", "serves_properties": [i for i in C if C[i]["engine"].startswith("E3")],
         "kind_free_text": "DFS over trace texts, typed traces and descriptor strings; real code in every state; text / typed / descriptor models"},
        {"name": "E5 sinkfault", "path": "pgmc/src/props/c15.rs", "serves_properties": ["C15"], "kind_free_text": "deviation-bounded explorer over sink answer scripts"},
        {"name": "E6 sched", "path": "pgmc/src/props/c20.rs", "serves_properties": ["C20"], "kind_free_text": "shuttle check_dfs + baton scheduler over OS threads + wp scheduler (pgmc/src/wp.rs: mprotect-based scheduling points at every store into the shared objects, preemption-bounded DFS) + run-time Send/Sync gate"},
        {"name": "E7 multiproc", "path": "pgmc/src/props/e7.rs", "serves_properties": ["C14", "C18"], "kind_free_text": "same deterministic enumeration in separately started processes with owned hash seeds (LD_PRELOAD getrandom shim); digests compared position-wise"},
        {"name": "E4 bytefault", "path": "pgmc/src/props/e4.rs", "serves_properties": [i for i in C if C[i]["engine"].startswith("E4")],
         "kind_free_text": "crash-point / corruption enumeration over cache files with an explicit deviation bound; real parser + queries on every faulted buffer"},
        {"name": "E1 mapspace", "path": "pgmc/src/e1.rs", "serves_properties": [i for i in C if C[i]["engine"].startswith("E1")],
         "kind_free_text": "stateless DFS over histories of mapping lines; real mapper/cache built in every state; full query universe per state"},
    ],
    "checks": [],
    "notes": "All checks: `bin/check <ID> <quick|thorough>`; exit 0 held / 1 violation / 2 machinery error. Known findings: known_findings.txt. Design: DESIGN.md.",
    "not_applicable": [],
}
for i in ids:
    if i in C:
        c = C[i]
        manifest["checks"].append({
            "property_id": i,
            "quick_cmd": f"bin/check {i} quick",
            "thorough_cmd": f"bin/check {i} thorough",
            "evidence_file": f"/verif/evidence/{i}.json",
            "replay_cmd_template": f"bin/check {i} --replay {{path}}",
            "engine": c["engine"],
            "level_claimed": {"category": c["cat"], "text": c["text"], "design_ref": c["ref"]},
            "level_note": c["note"],
            "technique": c["tech"],
        })
    else:
        manifest["not_applicable"].append({"property_id": i, "reason": "not claimed yet: the check for this property is still being built (see DESIGN.md §4 for the plan)"})
json.dump(manifest, open(os.path.join(V, "MANIFEST.json"), "w"), indent=1)
print("claimed:", [c["property_id"] for c in manifest["checks"]])
