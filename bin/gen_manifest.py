#!/usr/bin/env python3
"""Regenerates /verif/MANIFEST.json from the table below (kept in one place so that it stays valid)."""
import json, os
V = os.path.dirname(os.path.dirname(os.path.abspath(__file__)))
props = [json.loads(l) for l in open(os.path.join(V, "properties.jsonl"))]
ids = [p["id"] for p in props]

# id -> (engine, category, technique, text, note, design_ref)
C = {}
def add(i, engine, cat, tech, text, note, ref):
    C[i] = dict(engine=engine, cat=cat, tech=tech, text=text, note=note, ref=ref)

MODEL_NOTE = ("Trusted: rustc/std; the reference model pgmc/src/model.rs (a re-statement of the property text evaluated on the "
              "generating AST - the oracle contains no parser); the AST printer. Bounded: alphabets and depths listed in the evidence "
              "file; data values outside the alphabets are not explored.")
add("C01", "E1 mapspace", "model_checking", "bounded-exhaustive explicit-state exploration of mapping histories on the real code vs a reference model",
    "Every mapping history of the listed scopes (all line sequences up to the depth bound over alphabets of ranges/originals/classes/headers/noise) is "
    "built on the real mapper (with and without index) and the real cache writer+reader, and the complete line-based query universe of the history is "
    "compared answer-for-answer with the reference model. Exhaustive within the stated bounds; nothing is sampled.", MODEL_NOTE, "DESIGN.md §4 C01")
add("C03", "E1 mapspace", "model_checking", "bounded-exhaustive explicit-state exploration of mapping histories on the real code vs a reference model",
    "All histories up to depth 5 (13-line alphabet) / 4 (24-line alphabet) incl. repeated entries across re-declared classes, plus name tables up to 300 classes; "
    "all (class, method, parameter-string) triples of each history's universe against mapper-with-index and cache vs model rule R10, mapper-without-index must be empty.",
    MODEL_NOTE, "DESIGN.md §4 C03")
add("C04", "E1 mapspace", "model_checking", "bounded-exhaustive explicit-state exploration of name tables on the real code vs a reference model",
    "All ordered selections of <=3 names (and subsets of 4-5) from a pool of 14 adversarially similar names as class tables and method tables, large-N tables up to 300 classes, "
    "all block-bookkeeping histories up to depth 4; every name, near miss, empty and unknown string looked up; consistency clause checked on every line of the universe.",
    MODEL_NOTE, "DESIGN.md §4 C04")

add("C02", "E1 mapspace", "model_checking", "bounded-exhaustive exploration of mapping histories and token strings on the real code, differential oracle (mapper vs cache)",
    "Every mapping of every E1 scope, every string of <=5 (thorough 6) tokens over a 16-token alphabet that lies in the representable domain, and every class block of the 7 corpus files: "
    "the complete query universe (class, method, frames by line and by parameters, throwable, text and typed traces, signatures) is answered by the mapper, the mapper with index and the cache written and parsed back; "
    "any difference is a violation. Exhaustive within the stated bounds.",
    "Trusted: rustc/std. No model involved. The domain filter for token strings and corpus files uses the implementation's own record iterator (itself checked by C05/C06).", "DESIGN.md §4 C02")

manifest = {
    "version": 1,
    "setup_cmd": "mkdir -p target && (cd pgmc && CARGO_NET_OFFLINE=true cargo build --release --offline) && (test ! -f shim/getrandom_shim.c || gcc -O2 -shared -fPIC -o shim/getrandom_shim.so shim/getrandom_shim.c)",
    "hooks": {
        "guard": "none (no hooks: every property is observable through the public API; --cfg getsentry_rust_proguard_verif is reserved and unused)",
        "enable": "not applicable: checks link /repo's working tree unmodified as a path dependency of /verif/pgmc",
        "baseline_off_cmd": "cd /repo && cargo test --workspace --no-fail-fast --offline",
        "source_commits": [],
        "add_only": True,
    },
    "engines": [
        {"name": "E1 mapspace", "path": "pgmc/src/e1.rs", "serves_properties": [i for i in C if C[i]["engine"].startswith("E1")],
         "kind_free_text": "stateless DFS over histories of mapping lines; real mapper/cache built in every state; full query universe per state"},
    ],
    "checks": [],
    "notes": "All checks: `bin/check <ID> <quick|thorough>`; exit 0 held / 1 violation / 2 machinery error. Known findings: known_findings.txt. Design: DESIGN.md.",
    "not_applicable": [],
}
for i in ids:
    if i in C:
        c = C[i]
        manifest["checks"].append({
            "property_id": i,
            "quick_cmd": f"bin/check {i} quick",
            "thorough_cmd": f"bin/check {i} thorough",
            "evidence_file": f"/verif/evidence/{i}.json",
            "replay_cmd_template": f"bin/check {i} --replay {{path}}",
            "engine": c["engine"],
            "level_claimed": {"category": c["cat"], "text": c["text"], "design_ref": c["ref"]},
            "level_note": c["note"],
            "technique": c["tech"],
        })
    else:
        manifest["not_applicable"].append({"property_id": i, "reason": "not claimed yet: the check for this property is still being built (see DESIGN.md §4 for the plan)"})
json.dump(manifest, open(os.path.join(V, "MANIFEST.json"), "w"), indent=1)
print("claimed:", [c["property_id"] for c in manifest["checks"]])
