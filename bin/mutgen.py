#!/usr/bin/env python3
"""mutgen.py <outdir> [files...]: operator-level mutants of /repo/src (one small edit per mutant) as git patches.

Not part of any registered check: this is the systematic complement to the hand-/agent-written seeded changes
(seeded/): every mutant that compiles and keeps the repository's own suite green is run against the quick checks
(bin/mutrun); survivors are either equivalent mutants or gaps, and are triaged by hand (seeded/MUTATION.md).
"""
import os, re, subprocess, sys, json

REPO = os.environ.get("MUT_REPO", "/repo")
FILES = ["src/mapping.rs", "src/mapper.rs", "src/cache/mod.rs", "src/cache/raw.rs", "src/stacktrace.rs", "src/java.rs", "src/lib.rs"]

# (name, regex, replacement) — applied to one match on one line
OPS = [
    ("le->lt", r" <= ", " < "), ("lt->le", r" < ", " <= "), ("ge->gt", r" >= ", " > "), ("gt->ge", r" > ", " >= "),
    ("lt->gt", r" < ", " > "), ("gt->lt", r" > ", " < "),
    ("eq->ne", r" == ", " != "), ("ne->eq", r" != ", " == "),
    ("add->sub", r" \+ ", " - "), ("sub->add", r" - ", " + "), ("mul->add", r" \* ", " + "),
    ("addassign->subassign", r" \+= ", " -= "), ("subassign->addassign", r" -= ", " += "),
    ("and->or", r" && ", " || "), ("or->and", r" \|\| ", " && "),
    ("true->false", r"\btrue\b", "false"), ("false->true", r"\bfalse\b", "true"),
    ("drop-not", r"(?<![=!<>\w])!(?=[a-zA-Z_(])", ""),
    ("min->max", r"\.min\(", ".max("), ("max->min", r"\.max\(", ".min("),
    ("first->last", r"\.first\(\)", ".last()"), ("last->first", r"\.last\(\)", ".first()"),
    ("find->rfind", r"\.find\(", ".rfind("), ("rfind->find", r"\.rfind\(", ".find("),
    ("split_once->rsplit_once", r"\.split_once\(", ".rsplit_once("), ("rsplit_once->split_once", r"\.rsplit_once\(", ".split_once("),
    ("rsplit->split", r"\.rsplit\(", ".split("), ("rsplitn->splitn", r"\.rsplitn\(", ".splitn("), ("splitn->rsplitn", r"\.splitn\(", ".rsplitn("),
    ("starts->ends", r"\.starts_with\(", ".ends_with("), ("ends->starts", r"\.ends_with\(", ".starts_with("),
    ("strip_prefix->strip_suffix", r"\.strip_prefix\(", ".strip_suffix("), ("strip_suffix->strip_prefix", r"\.strip_suffix\(", ".strip_prefix("),
    ("is_some->is_none", r"\.is_some\(\)", ".is_none()"), ("is_none->is_some", r"\.is_none\(\)", ".is_some()"),
    ("is_empty->not", r"(\b[\w.]+)\.is_empty\(\)", r"!\1.is_empty()"),
    ("saturating_sub->add", r"\.saturating_sub\(", ".saturating_add("), ("saturating_add->sub", r"\.saturating_add\(", ".saturating_sub("),
    ("checked_add->sub", r"\.checked_add\(", ".checked_sub("),
    ("any->all", r"\.any\(", ".all("), ("all->any", r"\.all\(", ".any("),
    ("and_then->map-none", r"\.unwrap_or\(([^()]*)\)", r".unwrap_or(Default::default())"),
    ("sort_by->sort_unstable_by", r"\.sort_by\(", ".sort_unstable_by("), ("sort_by_key->unstable", r"\.sort_by_key\(", ".sort_unstable_by_key("),
    ("entry-or-insert", r"\.or_insert_with\(", ".or_insert_with_key(|_| "),  # rarely compiles; cheap to try
    ("trim->trim_start", r"\.trim\(\)", ".trim_start()"), ("trim->trim_end", r"\.trim\(\)", ".trim_end()"),
    ("trim_start->trim", r"\.trim_start\(\)", ".trim()"), ("trim_end->trim", r"\.trim_end\(\)", ".trim()"),
    ("clear-removed", r"^(\s*)[\w.]+\.clear\(\);\s*$", r"\1();"),
    ("continue->break", r"\bcontinue;", "break;"),
    ("return-none-early", r"^(\s*)return None;\s*$", r"\1();"),
    ("del-assign", r"^(\s*)[\w.\[\]*]+\s*(=|\+=|-=)\s[^=].*;\s*$", r"\1();"),
    ("del-call", r"^(\s*)[\w.]+\.(push|insert|sort\w*|extend\w*|truncate|dedup\w*|retain|reverse|push_str|remove)\(.*\);\s*$", r"\1();"),
    ("if->false", r"^(\s*)(\}\s*else\s+)?if (?!let )(.*) \{\s*$", r"\1\2if false {"),
    ("if->true", r"^(\s*)(\}\s*else\s+)?if (?!let )(.*) \{\s*$", r"\1\2if true {"),
    ("int+1", r"(?<![\w.\"'])(\d+)(?![\w.\"'])", None),  # handled specially
    ("int-1", r"(?<![\w.\"'])(\d+)(?![\w.\"'])", None),
    ("as-u32->u16", r" as u32\b", " as u16 as u32"), ("as-u64->u32", r" as u64\b", " as u32 as u64"), ("as-usize->u16", r" as usize\b", " as u16 as usize"),
]


def code_lines(path):
    """yield (lineno, text) of lines that are code (not comments/attributes/tests)"""
    src = open(path).read().split("\n")
    in_tests = False
    for i, l in enumerate(src):
        s = l.strip()
        if s.startswith("#[cfg(test)]"):
            in_tests = True  # test modules are at the end of each file
        if in_tests:
            continue
        if not s or s.startswith("//") or s.startswith("#[") or s.startswith("use ") or s.startswith("pub use ") or s.startswith("mod ") or s.startswith("pub mod "):
            continue
        if s.startswith("///") or s.startswith("//!"):
            continue
        yield i, l


def strip_strings(l):
    """mask string literals and trailing comments so operators inside them are not mutated"""
    out = []; i = 0; n = len(l); inq = False
    while i < n:
        c = l[i]
        if inq:
            if c == "\\":
                out.append("__"); i += 2; continue
            if c == '"':
                inq = False
            out.append('"' if c == '"' else "_")
        else:
            if c == "/" and l[i:i+2] == "//":
                out.append("_" * (n - i)); break
            if c == '"':
                inq = True
            # char literal
            if c == "'" and i + 2 < n and (l[i+2] == "'" or (l[i+1] == "\\" and i + 3 < n and l[i+3] == "'")):
                k = 3 if l[i+2] == "'" else 4
                out.append("_" * k); i += k; continue
            out.append(c)
        i += 1
    return "".join(out)[:n].ljust(n, "_")


def main():
    outdir = sys.argv[1]; files = sys.argv[2:] or FILES
    os.makedirs(outdir, exist_ok=True)
    n = 0; index = []
    for f in files:
        path = os.path.join(REPO, f)
        orig = open(path).read()
        lines = orig.split("\n")
        for ln, text in code_lines(path):
            masked = strip_strings(text)
            seen = set()
            for name, rx, rep in OPS:
                for m in re.finditer(rx, masked):
                    if name in ("int+1", "int-1"):
                        v = int(m.group(1))
                        nv = v + 1 if name == "int+1" else v - 1
                        if nv < 0: continue
                        new = text[:m.start(1)] + str(nv) + text[m.end(1):]
                    else:
                        piece = re.sub(rx, rep, masked[m.start():m.end()], count=1)
                        # re-insert original text for groups: operate on the original text with the same span
                        new = text[:m.start()] + re.sub(rx, rep, text[m.start():m.end()], count=1) + text[m.end():]
                    if new == text or new in seen: continue
                    seen.add(new)
                    mutated = lines[:]; mutated[ln] = new
                    open(path, "w").write("\n".join(mutated))
                    diff = subprocess.run(["git", "-C", REPO, "diff", "--", f], capture_output=True, text=True).stdout
                    open(path, "w").write(orig)
                    if not diff: continue
                    n += 1
                    pid = "m%05d" % n
                    open(os.path.join(outdir, pid + ".diff"), "w").write(diff)
                    index.append({"id": pid, "file": f, "line": ln + 1, "op": name, "before": text.strip(), "after": new.strip()})
        open(path, "w").write(orig)
    json.dump(index, open(os.path.join(outdir, "index.json"), "w"), indent=0)
    print(n, "mutants in", outdir)


if __name__ == "__main__":
    main()
