/* LD_PRELOAD shim: makes the per-process hash seed of std's RandomState a harness-owned input.
 * std::collections::hash_map::RandomState obtains its keys through getrandom(2) (libc wrapper);
 * with PGMC_HASH_SEED=<n> set, this returns a deterministic byte stream derived from n instead.
 * Without the variable the real system call is made. */
#define _GNU_SOURCE
#include <stddef.h>
#include <stdlib.h>
#include <sys/types.h>
#include <sys/syscall.h>
#include <unistd.h>

ssize_t getrandom(void *buf, size_t buflen, unsigned int flags) {
    const char *s = getenv("PGMC_HASH_SEED");
    if (!s) return syscall(SYS_getrandom, buf, buflen, flags);
    unsigned long long x = strtoull(s, 0, 10) * 0x9E3779B97F4A7C15ULL + 0xD1B54A32D192ED03ULL;
    unsigned char *p = buf;
    for (size_t i = 0; i < buflen; i++) {
        x ^= x >> 12; x ^= x << 25; x ^= x >> 27;
        p[i] = (unsigned char)((x * 0x2545F4914F6CDD1DULL) >> 56);
    }
    return (ssize_t)buflen;
}
