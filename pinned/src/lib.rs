//! This crate implements handling of proguard mapping files.
//!
//! The main use case is to re-map classes or complete stack frames, but it can
//! also be used to parse a proguard mapping line-by-line.
//!
//! The `uuid` feature also allows getting the UUID of the proguard file.
//!
//! # Examples
//!
//! ```
//! let mapping = r#"
//! android.arch.core.internal.SafeIterableMap -> a.a.a.b.c:
//!     13:13:java.util.Map$Entry eldest():168:168 -> a
//! "#;
//! let mapper = proguard::ProguardMapper::from(mapping);
//!
//! // re-mapping a classname
//! assert_eq!(
//!     mapper.remap_class("a.a.a.b.c"),
//!     Some("android.arch.core.internal.SafeIterableMap"),
//! );
//!
//! // re-map a stack frame
//! assert_eq!(
//!     mapper
//!         .remap_frame(&proguard::StackFrame::new("a.a.a.b.c", "a", 13))
//!         .collect::<Vec<_>>(),
//!     vec![proguard::StackFrame::new(
//!         "android.arch.core.internal.SafeIterableMap",
//!         "eldest",
//!         168
//!     )],
//! );
//! ```

#![warn(missing_docs)]

mod cache;
mod java;
mod mapper;
mod mapping;
mod stacktrace;

pub use cache::{CacheError, CacheErrorKind, ProguardCache};
pub use mapper::{DeobfuscatedSignature, ProguardMapper, RemappedFrameIter};
pub use mapping::{
    LineMapping, MappingSummary, ParseError, ParseErrorKind, ProguardMapping, ProguardRecord,
    ProguardRecordIter,
};
pub use stacktrace::{StackFrame, StackTrace, Throwable};
