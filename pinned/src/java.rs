use crate::{mapper::ProguardMapper, ProguardCache};

fn java_base_types(encoded_ty: char) -> Option<&'static str> {
    match encoded_ty {
        'Z' => Some("boolean"),
        'B' => Some("byte"),
        'C' => Some("char"),
        'S' => Some("short"),
        'I' => Some("int"),
        'J' => Some("long"),
        'F' => Some("float"),
        'D' => Some("double"),
        'V' => Some("void"),
        _ => None,
    }
}

fn byte_code_type_to_java_type(byte_code_type: &str, mapper: &ProguardMapper) -> Option<String> {
    let mut chrs = byte_code_type.chars();
    let mut suffix = "".to_string();
    while let Some(token) = chrs.next() {
        if token == 'L' {
            // expect and remove final `;`
            if chrs.next_back()? != ';' {
                return None;
            }
            let obfuscated = chrs.as_str().replace('/', ".");

            if let Some(mapped) = mapper.remap_class(&obfuscated) {
                return Some(format!("{}{}", mapped, suffix));
            }

            return Some(format!("{}{}", obfuscated, suffix));
        } else if token == '[' {
            suffix.push_str("[]");
            continue;
        } else if let Some(ty) = java_base_types(token) {
            return Some(format!("{}{}", ty, suffix));
        }
    }
    None
}

/// Same as [`byte_code_type_to_java_type`], but uses a [`ProguardCache`] for remapping.
fn byte_code_type_to_java_type_cache(
    byte_code_type: &str,
    cache: &ProguardCache,
) -> Option<String> {
    let mut chrs = byte_code_type.chars();
    let mut suffix = "".to_string();
    while let Some(token) = chrs.next() {
        if token == 'L' {
            // expect and remove final `;`
            if chrs.next_back()? != ';' {
                return None;
            }
            let obfuscated = chrs.as_str().replace('/', ".");

            if let Some(mapped) = cache.remap_class(&obfuscated) {
                return Some(format!("{}{}", mapped, suffix));
            }

            return Some(format!("{}{}", obfuscated, suffix));
        } else if token == '[' {
            suffix.push_str("[]");
            continue;
        } else if let Some(ty) = java_base_types(token) {
            return Some(format!("{}{}", ty, suffix));
        }
    }
    None
}

// parse_obfuscated_bytecode_signature will parse an obfuscated signatures into parameter
// and return types that can be then deobfuscated
fn parse_obfuscated_bytecode_signature(signature: &str) -> Option<(Vec<&str>, &str)> {
    let signature = signature.strip_prefix('(')?;

    let (parameter_types, return_type) = signature.rsplit_once(')')?;
    if return_type.is_empty() {
        return None;
    }

    let mut types: Vec<&str> = Vec::new();
    let mut first_idx = 0;

    let mut param_chrs = parameter_types.char_indices();
    while let Some((idx, token)) = param_chrs.next() {
        if token == 'L' {
            let mut last_idx = idx;
            for (i, c) in param_chrs.by_ref() {
                last_idx = i;
                if c == ';' {
                    break;
                }
            }
            let ty = parameter_types.get(first_idx..last_idx + 1)?;
            if ty.is_empty() || !ty.ends_with([';']) {
                return None;
            }
            types.push(ty);
            first_idx = last_idx + 1;
        } else if token == '[' {
            continue;
        } else if java_base_types(token).is_some() {
            let ty = parameter_types.get(first_idx..idx + 1)?;
            types.push(ty);
            first_idx = idx + 1;
        }
    }

    Some((types, return_type))
}

/// returns a tuple where the first element is the list of the function
/// parameters and the second one is the return type
pub fn deobfuscate_bytecode_signature(
    signature: &str,
    mapper: &ProguardMapper,
) -> Option<(Vec<String>, String)> {
    let (parameter_types, return_type) = parse_obfuscated_bytecode_signature(signature)?;
    let parameter_java_types: Vec<String> = parameter_types
        .into_iter()
        .filter(|params| !params.is_empty())
        .filter_map(|params| byte_code_type_to_java_type(params, mapper))
        .collect();

    let return_java_type = byte_code_type_to_java_type(return_type, mapper)?;

    Some((parameter_java_types, return_java_type))
}

/// Same as [`deobfuscate_bytecode_signature`], but uses a [`ProguardCache`] for remapping.
pub fn deobfuscate_bytecode_signature_cache(
    signature: &str,
    cache: &ProguardCache,
) -> Option<(Vec<String>, String)> {
    let (parameter_types, return_type) = parse_obfuscated_bytecode_signature(signature)?;
    let parameter_java_types: Vec<String> = parameter_types
        .into_iter()
        .filter(|params| !params.is_empty())
        .filter_map(|params| byte_code_type_to_java_type_cache(params, cache))
        .collect();

    let return_java_type = byte_code_type_to_java_type_cache(return_type, cache)?;

    Some((parameter_java_types, return_java_type))
}

#[cfg(test)]
mod tests {
    use crate::{java::byte_code_type_to_java_type, ProguardMapper, ProguardMapping};
    use std::collections::HashMap;

    #[test]
    fn test_byte_code_type_to_java_type() {
        let proguard_source = b"org.slf4j.helpers.Util$ClassContextSecurityManager -> org.a.b.g$a:
    65:65:void <init>() -> <init>";

        let mapping = ProguardMapping::new(proguard_source);
        let mapper = ProguardMapper::new(mapping);

        let tests = HashMap::from([
            ("[I", "int[]"),
            ("I", "int"),
            ("[Ljava/lang/String;", "java.lang.String[]"),
            ("[[J", "long[][]"),
            ("[B", "byte[]"),
            (
                // Obfuscated class type
                "Lorg/a/b/g$a;",
                "org.slf4j.helpers.Util$ClassContextSecurityManager",
            ),
        ]);

        // invalid types
        let tests_invalid = vec!["", "L", ""];

        for (ty, expected) in tests {
            assert_eq!(
                byte_code_type_to_java_type(ty, &mapper).unwrap(),
                expected.to_string()
            );
        }

        for ty in tests_invalid {
            let java_type = byte_code_type_to_java_type(ty, &mapper);
            assert!(java_type.is_none());
        }
    }

    #[test]
    fn test_format_signature() {
        let proguard_source = b"org.slf4j.helpers.Util$ClassContextSecurityManager -> org.a.b.g$a:
    65:65:void <init>() -> <init>";

        let mapping = ProguardMapping::new(proguard_source);
        let mapper = ProguardMapper::new(mapping);

        let tests_valid = HashMap::from([
            // valid signatures
            ("()V", "()"),
            ("([I)V", "(int[])"),
            ("(III)V", "(int, int, int)"),
            ("([Ljava/lang/String;)V", "(java.lang.String[])"),
            ("([[J)V", "(long[][])"),
            ("(I)I", "(int): int"),
            ("([B)V", "(byte[])"),
            (
                "(Ljava/lang/String;Ljava/lang/String;)Ljava/lang/String;",
                "(java.lang.String, java.lang.String): java.lang.String",
            ),
            (
                // Obfuscated class type
                "(Lorg/a/b/g$a;)V",
                "(org.slf4j.helpers.Util$ClassContextSecurityManager)",
            ),
        ]);

        // invalid signatures
        let tests_invalid = vec!["", "()", "(L)"];

        for (obfuscated, expected) in tests_valid {
            let signature = mapper.deobfuscate_signature(obfuscated);
            assert_eq!(signature.unwrap().format_signature(), expected.to_string());
        }

        for obfuscated in tests_invalid {
            let signature = mapper.deobfuscate_signature(obfuscated);
            assert!(signature.is_none());
        }
    }
}
